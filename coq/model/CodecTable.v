(** C06 - pkg/objects/table.go and block_index.go (WriteTo / ReadFrom).  Definitions only.

    Table.WriteTo: fields "columns" (StrList), "pk" (UintList), "rows" (u32), then the
    block sums and the block index sums, written raw.  Refusal = the PANIC of
    StrListEncoder.Encode for a column name > 65535 bytes (and the panics for >= 2^32
    elements).  Table.ReadFrom reads ceil(rows/255) 16-byte block sums and as many index
    sums and leaves the rest of the input unread.  The Go code computes the count as
    uint32(math.Ceil(float64(rows)/255)), exact for every 32-bit rows (the fractional
    part of rows/255 is a multiple of 1/255, far above float64 resolution at 2^24);
    the model uses (rows + 254) / 255.

    BlockIndex.WriteTo: one byte byte(len(Rows)), the sortedOff bytes, then Rows[i] for
    i < len(sortedOff) (index-out-of-range PANIC when there are fewer rows).
    BlockIndex.ReadFrom: count byte l, l offset bytes, l rows of 32 bytes. *)
From W.lib Require Import Tree Bytes.
From W.model Require Import CodecBase CodecStrList CodecObjline.
From Coq Require Import Arith.
Local Open Scope N_scope.

Definition L_columns : bytes := [99; 111; 108; 117; 109; 110; 115].
Definition L_pk : bytes := [112; 107].
Definition L_rows : bytes := [114; 111; 119; 115].

Record table := mk_table {
  t_columns : list bytes; t_pk : list N; t_rowscount : N;
  t_blocks : list bytes; t_indices : list bytes }.

Definition blocks_count (rows : N) : N := (rows + 254) / 255.

Definition encode_table (t : table) : option bytes :=
  match encode_strlist (t_columns t), encode_uintlist (t_pk t) with
  | Some c, Some p =>
      Some (enc_field L_columns c ++ enc_field L_pk p ++ enc_field L_rows (be 4 (t_rowscount t)) ++
            concat (t_blocks t) ++ concat (t_indices t))
  | _, _ => None
  end.

(* n reads of exactly w bytes *)
Fixpoint read_fixed (w n : nat) (b : bytes) : option (list bytes * bytes) :=
  match n with
  | O => Some ([], b)
  | S n' =>
      match take w b with
      | None => None
      | Some (h, b1) =>
          match read_fixed w n' b1 with
          | Some (r, t) => Some (h :: r, t)
          | None => None
          end
      end
  end.

Definition decode_table (b : bytes) : option (table * bytes) :=
  match dec_field L_columns decode_strlist b with
  | None => None
  | Some (cols, b1) =>
  match dec_field L_pk decode_uintlist b1 with
  | None => None
  | Some (pk, b2) =>
  match dec_field L_rows (rd_be 4) b2 with
  | None => None
  | Some (rows, b3) =>
      let n := blocks_count rows in
      if count_fits n b3 then
        match read_fixed 16 (N.to_nat n) b3 with
        | None => None
        | Some (blocks, b4) =>
            match read_fixed 16 (N.to_nat n) b4 with
            | None => None
            | Some (idx, b5) => Some (mk_table cols pk rows blocks idx, b5)
            end
        end
      else None
  end end end.

Definition wf_table (t : table) : Prop :=
  wf_strlist (t_columns t) /\ wf_uintlist (t_pk t) /\ t_rowscount t < 2 ^ 32 /\
  length (t_blocks t) = N.to_nat (blocks_count (t_rowscount t)) /\
  length (t_indices t) = N.to_nat (blocks_count (t_rowscount t)) /\
  Forall (fun s => length s = 16%nat) (t_blocks t) /\
  Forall (fun s => length s = 16%nat) (t_indices t).

(* tree: ((column...) (pk...) rows (block...) (index...)) *)
Definition t_table (t : table) : tree :=
  Node [t_list t_bytes (t_columns t); t_list Leaf (t_pk t); Leaf (t_rowscount t);
        t_list t_bytes (t_blocks t); t_list t_bytes (t_indices t)].
Definition d_table (t : tree) : table :=
  mk_table (d_list d_bytes (d_nth 0 t)) (d_list d_N (d_nth 1 t)) (d_N (d_nth 2 t))
           (d_list d_bytes (d_nth 3 t)) (d_list d_bytes (d_nth 4 t)).

(** * BlockIndex *)
Record blockindex := mk_bi { bi_off : bytes; bi_rows : list bytes }.

Definition encode_blockindex (x : blockindex) : option bytes :=
  if (length (bi_off x) <=? length (bi_rows x))%nat then
    Some ([N.of_nat (length (bi_rows x)) mod 256] ++ bi_off x ++
          concat (firstn (length (bi_off x)) (bi_rows x)))
  else None.

Definition decode_blockindex (b : bytes) : option (blockindex * bytes) :=
  match b with
  | [] => None
  | l :: b1 =>
      match take (N.to_nat l) b1 with
      | None => None
      | Some (off, b2) =>
          match read_fixed 32 (N.to_nat l) b2 with
          | None => None
          | Some (rows, b3) => Some (mk_bi off rows, b3)
          end
      end
  end.

Definition wf_blockindex (x : blockindex) : Prop :=
  length (bi_off x) = length (bi_rows x) /\ (length (bi_rows x) <= 255)%nat /\
  Forall (fun s => length s = 32%nat) (bi_rows x).

(* tree: (offsets (row...)) *)
Definition t_blockindex (x : blockindex) : tree :=
  Node [t_bytes (bi_off x); t_list t_bytes (bi_rows x)].
Definition d_blockindex (t : tree) : blockindex :=
  mk_bi (d_bytes (d_nth 0 t)) (d_list d_bytes (d_nth 1 t)).
