(** Model of pkg/sorter/sorter.go (external sort used by ingest, merge, doctor).

    A row is [list bytes] (the decoded cells), a block is a list of rows; the byte
    encodings (StrList, block bytes) are the business of C06 and do not appear here.

    Transliterated: AddRow (cell-limit check, size accounting, spill of a sorted run),
    the two comparison loops (StringSliceIsLess and StrList.LessThan), pkIndices,
    pkIsDifferent with its first-row flag, the k-way merge loops of SortedBlocks and
    SortedRows (minimum head by strict comparison: ties go to the lowest chunk index,
    the in-memory run is compared last), key extraction from the FULL row before the
    removed columns are dropped, block emission at 255 rows, blkPK captured from the
    first KEPT row of a block, the cleanup list run by Close, and Reset.

    Not modelled: the profiler, the progress bar, context cancellation, I/O errors of
    chunk files, uint64 wrap of the size counter.  Where Go would panic on an index
    out of range (row shorter than a key / removed index) the model reads an empty
    cell; all theorems assume rows of [ncols] cells and indices < ncols.

    The in-memory sort (Go's unstable sort.Slice) is the Section variable [sort_rows];
    theorems assume only that it returns a sorted permutation ([sort_ok] in
    SorterSpec.v).  The extracted instance is the stable insertion sort [isort_rows].

    Exchange format of C19 (run_C19), mirrored by harness/c19.go:
      case = (0 ncols pk rows runSize removed)      sort one table, both outputs
           | (1 runSize pk (op ...))                 history; op = (0 row) AddRow | (1) Reset | (2) Close
           | (2 runSize (use ...))                    ONE sorter reused: per use Reset, SetColumns (ncols
                                                      columns), PK = pk, AddRow for every row, one output;
                                                      use = (ncols pk rows out removed), out 0 = SortedBlocks,
                                                      1 = SortedRows; finally Close
        ncols   leaf, number of columns given to SetColumns (0 = SetColumns not called)
        pk      node of leaves (column indices, in key order)
        rows    node of rows, a row = node of cells, a cell = node of byte leaves
        runSize leaf (WithRunSize)
        removed node of leaves (removed column indices; never a key column)
      observation = (status nchunks blocks rowsout leftover)
        status   0 ok | 1 AddRow returned an error (then the rest is empty)
        nchunks  number of spilled chunks after all AddRow calls
        blocks   node of (offset pk rowcount (crow ...))   -- SortedBlocks
        rowsout  node of (offset (crow ...))               -- SortedRows
        leftover number of chunk files still alive after Close (0)
        crow     = (0 cell ...) the row, or (1 keycell ...) when the row's key is
                   ambiguous: some single run holds two different rows with that key,
                   so which one survives depends on the unstable in-memory sort.
      observation of a reuse = (((status nchunks out) ...) leftover): out = blocks or rowsout as above
      observation of a history = ((ok live) ...) after every op: ok = 1/0, live = number of
        chunk files that exist. *)
From W.lib Require Import Tree Bytes.
From Coq Require Import Arith.
Local Open Scope N_scope.

Definition row := list bytes.
Definition key := list bytes.

Definition blen (b : bytes) : N := N.of_nat (length b).
Definition max_str_len : N := 65535.
Definition block_size : nat := 255.

(** AddRow: the guard and the size accounting *)
Definition cell_too_long (r : row) : bool := existsb (fun c => max_str_len <? blen c) r.
Definition row_size (r : row) : N := fold_left (fun a c => a + blen c + 2) r 4.

(** slice.CopyValuesFromIndices / IndicesToValues *)
Definition key_of (idx : list nat) (r : row) : key := map (fun i => nth i r []) idx.

(** Sorter.pkIndices: the key columns, or every column of Columns when there is no key *)
Definition pk_indices (ncols : nat) (pk : list nat) : list nat :=
  match pk with [] => seq 0 ncols | _ => pk end.

(** objects.StringSliceIsLess *)
Fixpoint ssl_all (a b : row) : bool :=
  match a with
  | [] => false
  | s :: a' =>
      let t := hd [] b in
      if blt s t then true else if bgt s t then false else ssl_all a' (tl b)
  end.
Fixpoint ssl_pk (pk : list nat) (a b : row) : bool :=
  match pk with
  | [] => false
  | u :: pk' =>
      let x := nth u a [] in let y := nth u b [] in
      if blt x y then true else if bgt x y then false else ssl_pk pk' a b
  end.
Definition string_slice_is_less (pk : list nat) (a b : row) : bool :=
  match pk with [] => ssl_all a b | _ => ssl_pk pk a b end.

(** objects.StrList.LessThan (on the decoded cells): bytes.Compare column by column,
    over the receiver's column count when no columns are given *)
Fixpoint sll_cols (cols : list nat) (a b : row) : bool :=
  match cols with
  | [] => false
  | u :: cols' =>
      match bcmp (nth u a []) (nth u b []) with
      | Gt => false
      | Lt => true
      | Eq => sll_cols cols' a b
      end
  end.
Definition strlist_less_than (pk : list nat) (a b : row) : bool :=
  match pk with [] => sll_cols (seq 0 (length a)) a b | _ => sll_cols pk a b end.

(** removeCols / StrListEditor.RemoveFrom: drop the cells at the removed indices *)
Fixpoint remove_from (i : nat) (rem : list nat) (r : row) : row :=
  match r with
  | [] => []
  | c :: r' =>
      if existsb (Nat.eqb i) rem then remove_from (S i) rem r'
      else c :: remove_from (S i) rem r'
  end.
Definition remove_cols (rem : list nat) (r : row) : row := remove_from 0 rem r.

(** slice.StringSliceEqual *)
Definition key_eqb (a b : key) : bool := keqb a b && Nat.eqb (length a) (length b).

(** pkIsDifferent(pk, prevPK, &first) = (result, prevPK', first') *)
Definition pk_is_different (pk prev : key) (first : bool) : bool * key * bool :=
  if first then (true, pk, false)
  else if key_eqb prev pk then (false, prev, false)
  else (true, pk, false).

(** the scan for the minimum head: [best] is replaced only by a strictly smaller head *)
Fixpoint pick_min_from (lt : row -> row -> bool) (i : nat) (runs : list (list row))
         (best : option (nat * row)) : option (nat * row) :=
  match runs with
  | [] => best
  | [] :: rs => pick_min_from lt (S i) rs best
  | (r :: _) :: rs =>
      match best with
      | None => pick_min_from lt (S i) rs (Some (i, r))
      | Some (_, m) =>
          if lt r m then pick_min_from lt (S i) rs (Some (i, r))
          else pick_min_from lt (S i) rs best
      end
  end.
Definition pick_min lt runs := pick_min_from lt 0 runs None.

(** consume the head of run [i] *)
Fixpoint pop_run (i : nat) (runs : list (list row)) {struct runs} : list (list row) :=
  match runs with
  | [] => []
  | r :: rs => match i with O => tl r :: rs | S i' => r :: pop_run i' rs end
  end.

Record sblock := mk_sblock { b_offset : nat; b_rows : list row; b_pk : key }.
Record srows := mk_srows { r_offset : nat; r_rows : list row }.

Section Loops.
  Variable ncols : nat.
  Variable pk : list nat.
  Variable rem : list nat.

  (** SortedBlocks main loop.  [None] = out of fuel (never with fuel > total rows). *)
  Fixpoint sb_loop (fuel : nat) (runs : list (list row)) (blk : list row) (blkPK prev : key)
           (first : bool) (offset : nat) : option (list sblock) :=
    match fuel with
    | O => None
    | S fuel' =>
        match pick_min (strlist_less_than pk) runs with
        | None => Some (match blk with [] => [] | _ => [mk_sblock offset blk blkPK] end)
        | Some (i, r) =>
            let rowPK := key_of (pk_indices ncols pk) r in
            let r' := remove_cols rem r in
            let '(pkOK, prev', first') := pk_is_different rowPK prev first in
            let blk' := if pkOK then blk ++ [r'] else blk in
            let blkPK' := if pkOK && Nat.eqb (length blk) 0 then rowPK else blkPK in
            let runs' := pop_run i runs in
            if Nat.eqb (length blk') block_size then
              match sb_loop fuel' runs' [] [] prev' first' (S offset) with
              | None => None
              | Some bs => Some (mk_sblock offset blk' blkPK' :: bs)
              end
            else sb_loop fuel' runs' blk' blkPK' prev' first' offset
        end
    end.

  (** SortedRows main loop *)
  Fixpoint sr_loop (fuel : nat) (runs : list (list row)) (rows : list row) (prev : key)
           (first : bool) (offset : nat) : option (list srows) :=
    match fuel with
    | O => None
    | S fuel' =>
        match pick_min (string_slice_is_less pk) runs with
        | None => Some (match rows with [] => [] | _ => [mk_srows offset rows] end)
        | Some (i, r) =>
            let rowPK := key_of (pk_indices ncols pk) r in
            let '(pkOK, prev', first') := pk_is_different rowPK prev first in
            let rows' := if pkOK then rows ++ [remove_cols rem r] else rows in
            let runs' := pop_run i runs in
            if Nat.eqb (length rows') block_size then
              match sr_loop fuel' runs' [] prev' first' (S offset) with
              | None => None
              | Some bs => Some (mk_srows offset rows' :: bs)
              end
            else sr_loop fuel' runs' rows' prev' first' offset
        end
    end.

  Definition total_rows (runs : list (list row)) : nat := length (concat runs).

  (** prevRowPK starts as len(pkIndices) empty strings, firstRow = true *)
  Definition init_prev : key := repeat [] (length (pk_indices ncols pk)).

  Definition sorted_blocks_runs (runs : list (list row)) : option (list sblock) :=
    sb_loop (S (total_rows runs)) runs [] [] init_prev true 0.
  Definition sorted_rows_runs (runs : list (list row)) : option (list srows) :=
    sr_loop (S (total_rows runs)) runs [] init_prev true 0.
End Loops.

(** Sorter state.  Chunk files are numbered by creation; [s_live] are the files that exist. *)
Record sorter := mk_sorter {
  s_chunks : list (list row);
  s_current : list row;
  s_size : N;
  s_cleanups : list nat;
  s_live : list nat;
  s_nfiles : nat
}.
Definition new_sorter : sorter := mk_sorter [] [] 0 [] [] 0.

Section Sorter.
  (** SortRows(rows, pk) = sort.Slice with StringSliceIsLess *)
  Variable sort_rows : list nat -> list row -> list row.
  Variable run_size : N.
  Variable pk : list nat.

  (** AddRow; [None] = the "cell value ... is too long" error (state unchanged) *)
  Definition add_row (s : sorter) (r : row) : option sorter :=
    if cell_too_long r then None
    else
      let size' := s_size s + row_size r in
      let cur' := s_current s ++ [r] in
      if run_size <=? size' then
        let id := s_nfiles s in
        Some (mk_sorter (s_chunks s ++ [sort_rows pk cur']) [] 0
                        (s_cleanups s ++ [id]) (s_live s ++ [id]) (S id))
      else Some (mk_sorter (s_chunks s) cur' size' (s_cleanups s) (s_live s) (s_nfiles s)).

  Fixpoint add_rows (s : sorter) (rows : list row) : option sorter :=
    match rows with
    | [] => Some s
    | r :: rows' => match add_row s r with None => None | Some s' => add_rows s' rows' end
    end.

  (** the sorted runs the merge loops read: chunk files in order, then the sorted current run *)
  Definition runs_of (s : sorter) : list (list row) := s_chunks s ++ [sort_rows pk (s_current s)].

  Definition sorted_blocks (ncols : nat) (rem : list nat) (s : sorter) : option (list sblock) :=
    sorted_blocks_runs ncols pk rem (runs_of s).
  Definition sorted_rows (ncols : nat) (rem : list nat) (s : sorter) : option (list srows) :=
    sorted_rows_runs ncols pk rem (runs_of s).
End Sorter.

(** Close: run the cleanups in order; each closes and removes its chunk file.
    A cleanup whose file is gone fails (second Close): [None]. *)
Fixpoint remove_first (x : nat) (l : list nat) : option (list nat) :=
  match l with
  | [] => None
  | y :: l' => if Nat.eqb x y then Some l'
               else match remove_first x l' with None => None | Some l'' => Some (y :: l'') end
  end.
Fixpoint run_cleanups (cl : list nat) (live : list nat) : option (list nat) :=
  match cl with
  | [] => Some live
  | f :: cl' => match remove_first f live with None => None | Some live' => run_cleanups cl' live' end
  end.
Definition close (s : sorter) : option sorter :=
  match run_cleanups (s_cleanups s) (s_live s) with
  | None => None
  | Some live => Some (mk_sorter (s_chunks s) (s_current s) (s_size s) (s_cleanups s) live (s_nfiles s))
  end.
(** Reset: every pending cleanup is run (its error ignored: a file already closed and
    removed by Close stays removed), then the slices are truncated. *)
Fixpoint run_cleanups_ignore (cl : list nat) (live : list nat) : list nat :=
  match cl with
  | [] => live
  | f :: cl' => run_cleanups_ignore cl' (match remove_first f live with None => live | Some live' => live' end)
  end.
Definition reset (s : sorter) : sorter :=
  mk_sorter [] [] 0 [] (run_cleanups_ignore (s_cleanups s) (s_live s)) (s_nfiles s).

(** histories of a sorter: AddRow / Reset / Close.  Status 0 ok, 1 error. *)
Inductive sop := OpAdd (r : row) | OpReset | OpClose.
Definition sop_step (sort_rows : list nat -> list row -> list row) (run_size : N) (pk : list nat)
           (s : sorter) (o : sop) : sorter * bool :=
  match o with
  | OpAdd r => match add_row sort_rows run_size pk s r with Some s' => (s', true) | None => (s, false) end
  | OpReset => (reset s, true)
  | OpClose => match close s with Some s' => (s', true) | None => (s, false) end
  end.
Fixpoint sop_run sort_rows run_size pk (s : sorter) (ops : list sop) : sorter :=
  match ops with
  | [] => s
  | o :: ops' => sop_run sort_rows run_size pk (fst (sop_step sort_rows run_size pk s o)) ops'
  end.
(** observation of a history: after every op (ok?, number of live chunk files) *)
Fixpoint sop_trace sort_rows run_size pk (s : sorter) (ops : list sop) : list (bool * nat) :=
  match ops with
  | [] => []
  | o :: ops' => let '(s', ok) := sop_step sort_rows run_size pk s o in
                 (ok, length (s_live s')) :: sop_trace sort_rows run_size pk s' ops'
  end.

(** A sorter reused for several tables, as doctor's resolver and ingest.reingestTable do:
    Reset(); SetColumns(header); PK = ...; AddRow...; one output; Reset(); ...
    The configuration lives next to the run state: Reset truncates Columns (and keeps PK),
    SetColumns appends, pkIndices() is recomputed from the CURRENT Columns at every output. *)
Record usorter := mk_us { u_s : sorter; u_ncols : nat; u_pk : list nat }.
Definition new_usorter : usorter := mk_us new_sorter 0 [].
Inductive uop :=
| UReset | USetColumns (n : nat) | USetPK (pk : list nat) | UAdd (r : row)
| UOut (blocks : bool) (rem : list nat).      (* SortedBlocks / SortedRows, drained *)
Inductive uout :=
| UOAdd (ok : bool)
| UOBlocks (nchunks : nat) (o : option (list sblock))
| UORows (nchunks : nat) (o : option (list srows)).
(** after an output the in-memory run is consumed and every chunk reader is at EOF *)
Definition drained (s : sorter) : sorter :=
  mk_sorter (map (fun _ => []) (s_chunks s)) [] (s_size s) (s_cleanups s) (s_live s) (s_nfiles s).
Definition uop_step (sort_rows : list nat -> list row -> list row) (run_size : N)
           (u : usorter) (o : uop) : usorter * option uout :=
  match o with
  | UReset => (mk_us (reset (u_s u)) 0 (u_pk u), None)
  | USetColumns n => (mk_us (u_s u) (u_ncols u + n) (u_pk u), None)
  | USetPK pk => (mk_us (u_s u) (u_ncols u) pk, None)
  | UAdd r =>
      match add_row sort_rows run_size (u_pk u) (u_s u) r with
      | Some s' => (mk_us s' (u_ncols u) (u_pk u), Some (UOAdd true))
      | None => (u, Some (UOAdd false))
      end
  | UOut true rem =>
      (mk_us (drained (u_s u)) (u_ncols u) (u_pk u),
       Some (UOBlocks (length (s_chunks (u_s u)))
                      (sorted_blocks sort_rows (u_pk u) (u_ncols u) rem (u_s u))))
  | UOut false rem =>
      (mk_us (drained (u_s u)) (u_ncols u) (u_pk u),
       Some (UORows (length (s_chunks (u_s u)))
                    (sorted_rows sort_rows (u_pk u) (u_ncols u) rem (u_s u))))
  end.
Fixpoint uop_run sort_rows run_size (u : usorter) (ops : list uop) : usorter * list uout :=
  match ops with
  | [] => (u, [])
  | o :: ops' =>
      let '(u', r) := uop_step sort_rows run_size u o in
      let '(u'', rs) := uop_run sort_rows run_size u' ops' in
      (u'', match r with Some x => x :: rs | None => rs end)
  end.
(** one use of the sorter for one table *)
Record suse := mk_suse { us_ncols : nat; us_pk : list nat; us_rows : list row; us_blocks : bool; us_rem : list nat }.
Definition use_ops (x : suse) : list uop :=
  UReset :: USetColumns (us_ncols x) :: USetPK (us_pk x) :: map UAdd (us_rows x) ++ [UOut (us_blocks x) (us_rem x)].

(** The executable instance of the in-memory sort: stable insertion sort. *)
Fixpoint insert_row (pk : list nat) (r : row) (l : list row) : list row :=
  match l with
  | [] => [r]
  | x :: l' => if string_slice_is_less pk x r then x :: insert_row pk r l' else r :: l
  end.
Definition isort_rows (pk : list nat) (l : list row) : list row :=
  fold_right (insert_row pk) [] l.

(** ------------------------------------------------------------------ *)
(** tree coders and run_C19 (trusted only by the correspondence)        *)

Definition d_row (t : tree) : row := d_list d_bytes t.
Definition t_row (r : row) : tree := t_list t_bytes r.

(** index of column u after the removed columns are dropped *)
Definition shift_idx (rem : list nat) (u : nat) : nat :=
  length (filter (fun j => negb (existsb (Nat.eqb j) rem)) (seq 0 u)).

Fixpoint row_eqb (a b : row) : bool :=
  match a, b with
  | [], [] => true
  | x :: a', y :: b' => beqb x y && row_eqb a' b'
  | _, _ => false
  end.

(** keys for which a sorted run holds two different rows *)
Fixpoint ambiguous_in_run (idx : list nat) (run : list row) : list key :=
  match run with
  | a :: ((b :: _) as run') =>
      if key_eqb (key_of idx a) (key_of idx b) && negb (row_eqb a b)
      then key_of idx a :: ambiguous_in_run idx run'
      else ambiguous_in_run idx run'
  | _ => []
  end.
Definition canon_row (amb : list key) (idx' : list nat) (o : row) : tree :=
  let k := key_of idx' o in
  if existsb (key_eqb k) amb then Node (Leaf 1 :: map t_bytes k) else Node (Leaf 0 :: map t_bytes o).

Definition run_C19_sort (c : tree) : tree :=
  let ncols := d_nat (d_nth 1 c) in
  let pk := d_list d_nat (d_nth 2 c) in
  let rows := d_list d_row (d_nth 3 c) in
  let rs := d_N (d_nth 4 c) in
  let rem := d_list d_nat (d_nth 5 c) in
  match add_rows isort_rows rs pk new_sorter rows with
  | None => Node [Leaf 1; Leaf 0; Node []; Node []; Leaf 0]
  | Some s =>
      let idx := pk_indices ncols pk in
      let idx' := map (shift_idx rem) idx in
      let runs := runs_of isort_rows pk s in
      let amb := concat (map (ambiguous_in_run idx) runs) in
      let cr := canon_row amb idx' in
      let blocks := match sorted_blocks isort_rows pk ncols rem s with
                    | None => Leaf 98
                    | Some bs => t_list (fun b => Node [t_nat (b_offset b); t_row (b_pk b);
                                                        t_nat (length (b_rows b));
                                                        t_list cr (b_rows b)]) bs
                    end in
      let rowsout := match sorted_rows isort_rows pk ncols rem s with
                     | None => Leaf 98
                     | Some bs => t_list (fun b => Node [t_nat (r_offset b); t_list cr (r_rows b)]) bs
                     end in
      let leftover := match close s with
                      | None => Leaf 97
                      | Some s' => t_nat (length (s_live s'))
                      end in
      Node [Leaf 0; t_nat (length (s_chunks s)); blocks; rowsout; leftover]
  end.

Definition d_sop (t : tree) : sop :=
  match d_nat (d_nth 0 t) with
  | 0%nat => OpAdd (d_row (d_nth 1 t))
  | 1%nat => OpReset
  | _ => OpClose
  end.
Definition run_C19_hist (c : tree) : tree :=
  let rs := d_N (d_nth 1 c) in
  let pk := d_list d_nat (d_nth 2 c) in
  let ops := d_list d_sop (d_nth 3 c) in
  t_list (fun p : bool * nat => Node [t_bool (fst p); t_nat (snd p)])
         (sop_trace isort_rows rs pk new_sorter ops).

(** kind 2: one sorter reused for several tables.  Per use the observation is
    (status nchunks out): status 1 = an AddRow failed (the harness then skips the output). *)
Definition d_suse (t : tree) : suse :=
  mk_suse (d_nat (d_nth 0 t)) (d_list d_nat (d_nth 1 t)) (d_list d_row (d_nth 2 t))
          (Nat.eqb (d_nat (d_nth 3 t)) 0) (d_list d_nat (d_nth 4 t)).
Fixpoint run_uses (rs : N) (u : usorter) (uses : list suse) : list tree * usorter :=
  match uses with
  | [] => ([], u)
  | x :: uses' =>
      let '(u1, _) := uop_run isort_rows rs u [UReset; USetColumns (us_ncols x); USetPK (us_pk x)] in
      let '(u2, adds) := uop_run isort_rows rs u1 (map UAdd (us_rows x)) in
      let failed := existsb (fun o => match o with UOAdd false => true | _ => false end) adds in
      let idx := pk_indices (u_ncols u2) (u_pk u2) in
      let amb := concat (map (ambiguous_in_run idx) (runs_of isort_rows (u_pk u2) (u_s u2))) in
      let cr := canon_row amb (map (shift_idx (us_rem x)) idx) in
      let '(u3, obs) :=
        if failed then (u2, Node [Leaf 1; Leaf 0; Node []])
        else
          match uop_step isort_rows rs u2 (UOut (us_blocks x) (us_rem x)) with
          | (u3, Some (UOBlocks n (Some bs))) =>
              (u3, Node [Leaf 0; t_nat n;
                         t_list (fun b => Node [t_nat (b_offset b); t_row (b_pk b); t_nat (length (b_rows b));
                                                t_list cr (b_rows b)]) bs])
          | (u3, Some (UORows n (Some bs))) =>
              (u3, Node [Leaf 0; t_nat n; t_list (fun b => Node [t_nat (r_offset b); t_list cr (r_rows b)]) bs])
          | (u3, _) => (u3, Leaf 98)
          end in
      let '(rest, uf) := run_uses rs u3 uses' in
      (obs :: rest, uf)
  end.
Definition run_C19_reuse (c : tree) : tree :=
  let rs := d_N (d_nth 1 c) in
  let '(obs, u) := run_uses rs new_usorter (d_list d_suse (d_nth 2 c)) in
  Node [Node obs;
        match close (u_s u) with None => Leaf 97 | Some s' => t_nat (length (s_live s')) end].

Definition run_C19 (c : tree) : tree :=
  match d_nat (d_nth 0 c) with
  | 0%nat => run_C19_sort c
  | 1%nat => run_C19_hist c
  | _ => run_C19_reuse c
  end.
