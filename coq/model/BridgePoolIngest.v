(** Bridge B8 (C16 -> C01/C03/C19 and C16 -> C04/C05): the concurrency slice connected to the
    sequential slices.  Definitions only (proofs: proofs/BridgePoolIngest_proofs.v, statements:
    props/Compose4.v).

    B8a.  The pool model (Pool.v) moves blocks that are only (offset, row count, injected
    failure); the ingest model (Ingest.v) moves the real blocks (rows, index, first key) but
    replaces the worker pool by an abstract arrival function [arrive] that theorems quantify
    over ([IngestSpec.any_arrival]).  The bridge:
      [pblk_of_sblock] / [pblk_of_ab]   what the pool model sees of a sorter block / of an
                                         async block of the ingest model;
      [pool_run c sched bs]              the pool model run on the blocks [bs] the sorter model
                                         emits, under the schedule [sched];
      [pool_arrival c sched bs]          the arrival function that run induces: the async
                                         blocks in the order in which the workers appended them
                                         to Inserter.asyncBlocks (= [Pool.ab] of the final state);
                                         on any other list it is the identity, so that it is an
                                         [any_arrival] function for EVERY schedule;
      [pool_table H columns pk bs r]     the table object the caller assembles from the pool's
                                         result [r] (rowsCount as the pool counted it, uint32;
                                         Blocks / BlockIndices / table index looked up by offset
                                         in the blocks that were saved);
      [pool_ingest_from_sorter], [pool_ingest_table]
                                         Ingest.ingest_from_sorter / Ingest.ingest_table with
                                         the abstract arrival replaced by the pool semantics
                                         under a schedule.
    The ingest model has no store errors, so no block carries an injected failure; and its
    RowsCount is an unbounded N whereas the pool's is Go's uint32: the two agree below 2^32
    stored rows (the statement carries [wrap32] in general).

    B8b.  The dataflow model (PoolFlow.v) groups abstract diff events (key hash, sum, offset,
    old sum, old offset); [flow_dev] maps an event of the diff model (Diff.v) to it, [flow_rows]
    a flat row list of the diff specification to a PoolFlow table; [flow_streams] are the event
    streams of Merger.Start (one diffTables(other_i, base, emitUnchanged) per layer; a layer
    whose guard fails emits nothing), [merge_view] is what the merge model (Merge.v) says
    mergeTables hands to the resolver for every key. *)
From W.lib Require Import Tree Bytes.
From W.model Require Sorter SorterSpec Ingest IngestSpec Pool PoolSpec PoolFlow Diff DiffSpec Merge.
From Coq Require Import List Arith NArith.
Import ListNotations.

(* ================================================================== B8a *)

(** what the pool model sees of a block emitted by the sorter model *)
Definition pblk_of_sblock (b : Sorter.sblock) : Pool.blk :=
  Pool.mk_blk (N.of_nat (Sorter.b_offset b)) (N.of_nat (length (Sorter.b_rows b))) Pool.FNone.

(** ... and of an async block of the ingest model *)
Definition pblk_of_ab (a : Ingest.asyncblock) : Pool.blk :=
  Pool.mk_blk (N.of_nat (Ingest.ab_offset a)) (N.of_nat (Ingest.ab_count a)) Pool.FNone.

Definition pool_items (bs : list Sorter.sblock) : list Pool.pitem :=
  map Pool.PBlk (map pblk_of_sblock bs).

(** the pool model on the sorter model's blocks, under a schedule *)
Definition pool_run (c : Pool.cfg) (sched : list nat) (bs : list Sorter.sblock) : Pool.st :=
  Pool.runs c sched (Pool.init c (pool_items bs)).

(** take the first async block with offset [o] out of a list *)
Fixpoint take_off (o : N) (l : list Ingest.asyncblock) : option (Ingest.asyncblock * list Ingest.asyncblock) :=
  match l with
  | [] => None
  | a :: r =>
      if N.eqb (N.of_nat (Ingest.ab_offset a)) o then Some (a, r)
      else match take_off o r with
           | Some (x, r') => Some (x, a :: r')
           | None => None
           end
  end.

(** the async blocks of [l] in the order of the offsets [order]; [None] unless [order] lists
    exactly the offsets of [l] *)
Fixpoint reorder (order : list N) (l : list Ingest.asyncblock) : option (list Ingest.asyncblock) :=
  match order with
  | [] => match l with [] => Some [] | _ => None end
  | o :: os =>
      match take_off o l with
      | Some (a, l') => match reorder os l' with Some r => Some (a :: r) | None => None end
      | None => None
      end
  end.

(** an arrival function for every completion order *)
Definition arrive_in_order (order : list N) (l : list Ingest.asyncblock) : list Ingest.asyncblock :=
  match reorder order l with Some r => r | None => l end.

(** the arrival order a pool run induces: the order of the appends to Inserter.asyncBlocks *)
Definition completion_order (s : Pool.st) : list N := map Pool.b_off (Pool.ab s).
Definition pool_arrival (c : Pool.cfg) (sched : list nat) (bs : list Sorter.sblock)
  : list Ingest.asyncblock -> list Ingest.asyncblock :=
  arrive_in_order (completion_order (pool_run c sched bs)).

Fixpoint collect {A} (l : list (option A)) : option (list A) :=
  match l with
  | [] => Some []
  | None :: _ => None
  | Some x :: r => match collect r with Some r' => Some (x :: r') | None => None end
  end.

Definition find_saved (saved : list Ingest.asyncblock) (o : N) : option Ingest.asyncblock :=
  find (fun a => N.eqb (N.of_nat (Ingest.ab_offset a)) o) saved.

Section PoolIngest.
  Variable H : list bytes -> N.

  (** sortBlocks + `tbl.RowsCount = i.rowsCount` on the pool's result: the sums the caller
      puts into the table are those of the saved blocks, by offset *)
  Definition pool_table (columns : list bytes) (pk : list nat) (bs : list Sorter.sblock) (r : Pool.res)
    : option (Ingest.table * list Sorter.key) :=
    match r with
    | Pool.RErr => None
    | Pool.ROk n tbl =>
        let saved := map (Ingest.save_block H pk) bs in
        match collect (map (fun b => find_saved saved (Pool.b_off b)) tbl) with
        | Some sorted =>
            Some (Ingest.mk_table (Ingest.ensure_names columns) pk n
                                  (map Ingest.ab_rows sorted) (map Ingest.ab_idx sorted),
                  map Ingest.ab_pk sorted)
        | None => None
        end
    end.

  Inductive pool_ingest_result :=
  | PIOk (T : Ingest.table) (tidx : list Sorter.key)
  | PIErrKey | PIErrCell | PIPanic | PIFuel      (* as Ingest.ingest_result *)
  | PIErr          (* the pool returned an error (never without injected failures: proved) *)
  | PIGoPanic      (* a Go panic inside the pool (never: proved) *)
  | PIRunning.     (* the schedule ends before the caller has returned *)

  Variable sort_rows : list nat -> list Sorter.row -> list Sorter.row.
  Variable c : Pool.cfg.
  Variable sched : list nat.

  (** ingestTableFromBlocks with the worker pool run under [sched] *)
  Definition pool_ingest_blocks (columns : list bytes) (pk : list nat) (bs : list Sorter.sblock)
    : pool_ingest_result :=
    let s := pool_run c sched bs in
    if Pool.panicked s then PIGoPanic
    else if negb (Pool.main_done s) then PIRunning
    else match Pool.result s with
         | None => PIRunning
         | Some Pool.RErr => PIErr
         | Some r => match pool_table columns pk bs r with
                     | Some (T, tidx) => PIOk T tidx
                     | None => PIErr
                     end
         end.

  (** Ingest.ingest_from_sorter with the pool in place of [arrive] *)
  Definition pool_ingest_from_sorter (columns : list bytes) (pk : list nat) (s : Sorter.sorter)
    : pool_ingest_result :=
    match Sorter.sorted_blocks sort_rows pk (length columns) [] s with
    | None => PIFuel
    | Some bs =>
        if Ingest.has_dup pk && negb (match bs with [] => true | _ => false end) then PIPanic
        else pool_ingest_blocks columns pk bs
    end.

  (** Ingest.ingest_table with the pool in place of [arrive] *)
  Definition pool_ingest_table (run_size : N) (columns pknames : list bytes) (rows : list Sorter.row)
    : pool_ingest_result :=
    match Ingest.key_indices columns pknames with
    | None => PIErrKey
    | Some pk =>
        match Sorter.add_rows sort_rows run_size pk Sorter.new_sorter rows with
        | None => PIErrCell
        | Some s => pool_ingest_from_sorter columns pk s
        end
    end.

  (** the order in which the workers completed the blocks of that ingest (for the examples) *)
  Definition pool_ingest_order (run_size : N) (columns pknames : list bytes) (rows : list Sorter.row)
    : option (list N) :=
    match Ingest.key_indices columns pknames with
    | None => None
    | Some pk =>
        match Sorter.add_rows sort_rows run_size pk Sorter.new_sorter rows with
        | None => None
        | Some s =>
            match Sorter.sorted_blocks sort_rows pk (length columns) [] s with
            | None => None
            | Some bs => Some (completion_order (pool_run c sched bs))
            end
        end
    end.
End PoolIngest.

(** the table with its RowsCount field as a uint32 *)
Definition wrap_rowscount (T : Ingest.table) : Ingest.table :=
  Ingest.mk_table (Ingest.t_columns T) (Ingest.t_pk T) (Pool.wrap32 (Ingest.t_rowscount T))
                  (Ingest.t_blocks T) (Ingest.t_blockidx T).

(** [res] (an outcome of the pool-driven ingest) agrees with the ingest model [ingest]
    (parameterised by the arrival function): either the schedule ends before the caller has
    returned, or the pool delivers the ingest model's table under SOME arrival function
    (the one the schedule induces), RowsCount reduced to uint32 *)
Definition pool_agrees (res : pool_ingest_result)
           (ingest : (list Ingest.asyncblock -> list Ingest.asyncblock) -> Ingest.ingest_result * list Ingest.wobj)
  : Prop :=
  res = PIRunning \/
  exists arrive T tidx wr,
    IngestSpec.any_arrival arrive /\ ingest arrive = (Ingest.IOk T tidx, wr) /\
    res = PIOk (wrap_rowscount T) tidx.

(** the objects the pool model's store holds for a list of async blocks *)
Definition pool_objs (l : list Ingest.asyncblock) : list Pool.obj :=
  flat_map (fun a => [Pool.OBlk (N.of_nat (Ingest.ab_offset a)); Pool.OIdx (N.of_nat (Ingest.ab_offset a))]) l.

(* ---- the schedule that realises a given completion order (non-vacuity of [any_arrival]) *)

(** [pi] = the block positions in the wanted completion order; needs one worker per block:
    caller spawns; producer sends block k and worker k takes it (k = 0 .. n-1); the workers
    run their bodies one after the other in the order [pi]; the producer closes the channel;
    every worker sees the closed channel and returns; the caller runs to the end. *)
Definition sched_of_order (c : Pool.cfg) (n : nat) (pi : list nat) : list nat :=
  [0%nat]
  ++ flat_map (fun k => [1%nat; S (S (S k))]) (seq 0 n)
  ++ flat_map (fun k => repeat (S (S (S k))) (length (Pool.c_body c))) pi
  ++ [1%nat]
  ++ flat_map (fun k => [S (S (S k)); S (S (S k))]) (seq 0 (Pool.c_w c))
  ++ repeat 0%nat (length (Pool.c_inner c) + length (Pool.c_outer c)).

(** position of the block with offset [o] *)
Fixpoint pos_of (o : N) (l : list Pool.blk) : nat :=
  match l with
  | [] => 0
  | b :: r => if N.eqb (Pool.b_off b) o then 0 else S (pos_of o r)
  end.
Definition order_positions (blocks p : list Pool.blk) : list nat :=
  map (fun b => pos_of (Pool.b_off b) blocks) p.

(* ================================================================== B8b *)

Section Flow.
  Variable kh : Diff.key -> N.       (* key hash: Diff.PK, the map key of mergeTables *)

  (** objects.Diff as PoolFlow sees it *)
  Definition flow_dev (d : Diff.dev) : PoolFlow.dev :=
    match d with
    | Diff.Added k r off => PoolFlow.mk_dev (kh k) (Some r) (N.of_nat off) None 0%N
    | Diff.Modified k r off r' off' => PoolFlow.mk_dev (kh k) (Some r) (N.of_nat off) (Some r') (N.of_nat off')
    | Diff.Removed k r' off' => PoolFlow.mk_dev (kh k) None 0%N (Some r') (N.of_nat off')
    end.

  (** a flat row list of the diff specification as a PoolFlow table *)
  Definition flow_rows (l : list Diff.row) : PoolFlow.table := map (fun kr => (kh (fst kr), snd kr)) l.

  (** the per-layer event streams of Merger.Start, from the diff MODEL:
      diffTables(other_i, base) with WithEmitUnchangedRow; a panic yields no stream *)
  Definition diff_stream (base other : Diff.tbl) : list PoolFlow.dev :=
    match Diff.diff_tables 255 true other base with
    | Diff.Ok evs => map flow_dev evs
    | Diff.Panic => []
    end.
  Definition flow_streams (base : Diff.tbl) (others : list Diff.tbl) : list (list PoolFlow.dev) :=
    map (diff_stream base) others.

  (** ... and from the diff SPECIFICATION *)
  Definition spec_stream (base other : Diff.tbl) : list PoolFlow.dev :=
    map flow_dev (DiffSpec.spec_diff true other base).
End Flow.

(** a PoolFlow record without the offsets: (key hash, base sum, sums of the layers) *)
Definition strip (r : PoolFlow.mrec) : N * option N * list (option N) :=
  (PoolFlow.m_pk r, PoolFlow.m_base r, map fst (PoolFlow.m_others r)).

Section MergeView.
  Variable kh : list bytes -> N.        (* key sum *)
  Variable rh : Merge.row -> N.         (* row sum *)

  (** a table of the merge model as a flat row list of the diff specification *)
  Definition merge_rows (t : Merge.table) : list Diff.row :=
    map (fun r => (Merge.key_of t r, rh r)) (Merge.t_rows t).

  (** the stream of layer [o]: diffTables compares rows only when [diff_enabled] *)
  Definition merge_stream (base o : Merge.table) : list PoolFlow.dev :=
    if Merge.diff_enabled base o
    then map (flow_dev kh) (DiffSpec.spec_diff_rows true true (merge_rows o) (merge_rows base))
    else [].
  Definition merge_streams (base : Merge.table) (others : list Merge.table) : list (list PoolFlow.dev) :=
    map (merge_stream base) others.

  (** what Merge.v says the grouping holds for key [k] *)
  Definition merge_view (base : Merge.table) (others : list Merge.table) (k : list bytes)
    : N * option N * list (option N) :=
    let m := Merge.mk_mrec base others k in
    (kh k, option_map rh (Merge.m_base m), map (option_map rh) (Merge.m_others m)).

  (** some layer emits an event for key [k]: a layer whose rows are compared has the key, or
      the base has it (then the layer reports modified / unchanged / removed) *)
  Definition key_emitted (base : Merge.table) (others : list Merge.table) (k : list bytes) : bool :=
    existsb (fun o => Merge.diff_enabled base o &&
                      (Merge.is_some (Merge.lookup o k) || Merge.is_some (Merge.lookup base k))) others.

  (** [d] is the stored form (diff model) of the merge model's table [t]: same key names and
      columns, rows in stored order keyed by [Merge.key_of], and the key names select columns
      exactly when there are key names (KeyIndices succeeded) *)
  Definition diff_view_of (t : Merge.table) (d : Diff.tbl) : Prop :=
    Diff.t_pk d = Merge.t_pk t /\ Diff.t_cols d = Merge.t_cols t /\
    concat (Diff.t_blocks d) = merge_rows t /\
    (length (Merge.pk_idx t) = 0 <-> length (Merge.t_pk t) = 0).

  (** the (key, record) pairs Merge.v hands to the resolver *)
  Definition collector_input (base : Merge.table) (others : list Merge.table)
    : list (list bytes * Merge.mrec) :=
    flat_map (fun k => let m := Merge.mk_mrec base others k in
                       if Merge.no_changes m then [] else [(k, m)])
             (Merge.all_keys base others).
End MergeView.
