(** Bridge B2 (C11 -> C10): the ancestry oracles of the ref-update model (model/RefUpdate.v,
    parameters [ia] and [sk] of every step function) instantiated with C11's transliterated
    ref.IsAncestorOf / ref.SeekCommonAncestor (model/Ancestor.v over model/Queue.v, model/Graph.v).
    Definitions only (lemmas: proofs/BridgeAncestor_proofs.v; statements: props/ComposeB2.v).

    The two slices represent the commit graph differently:
      RefUpdate.graph = list (commit * list commit)          first entry of an id = the commit;
                                                             an id without entry has no parents
      Graph.graph     = list (id * (Z * list id))            the same plus a commit time; an id
                                                             without entry is ABSENT (GetCommit fails)
    [to_graph tm g] is the abstraction function: same entries in the same order, commit [c]
    given the time [tm c].  [tm] is arbitrary: C11's theorems hold for every assignment of
    commit times ("whatever the timestamps say"), and so do the composed ones. *)
From Coq Require Import List NArith ZArith Bool.
From W.model Require RefUpdate Graph Queue Ancestor.
Import ListNotations.

(** RefUpdate's commit graph seen as a C11 store *)
Definition to_graph (tm : N -> Z) (g : RefUpdate.graph) : Graph.graph :=
  map (fun e : RefUpdate.commit * list RefUpdate.commit => (fst e, (tm (fst e), snd e))) g.

(** ref.IsAncestorOf(db, a, b) as the Go code runs it (time-ordered placement, sort.Search), on the
    store [to_graph tm g].  RefUpdate's [ia] is a boolean: the decision rules take the fast-forward
    line only on (true, nil); a GetCommit error is not "yes". *)
Definition b_is_ancestor (tm : N -> Z) (g : RefUpdate.graph) (a b : RefUpdate.commit) : bool :=
  let G := to_graph tm g in
  Ancestor.anc_true G (Queue.ins_time G) (Queue.srt_time G) a b.

(** ref.SeekCommonAncestor(db, cs...) as the Go code runs it, projected on what runMerge uses:
    nonAncestral = the inputs different from the returned base, so the base matters only through
    "is it one of the inputs, and which".  An error ends the merge without a ref write (SNone);
    so does "not found".  (nil, nil) never occurs on a complete store (C11_base_found); a nil base
    equals no input and getTable(nil) fails, so it is mapped to SNone as well. *)
Definition b_seek (tm : N -> Z) (g : RefUpdate.graph) (cs : list RefUpdate.commit) : RefUpdate.seekres :=
  match Ancestor.t_seek (to_graph tm g) cs with
  | Ancestor.SFound x => if RefUpdate.cmem x cs then RefUpdate.SInput x else RefUpdate.SOther
  | Ancestor.SNil => RefUpdate.SNone
  | Ancestor.SNotFound => RefUpdate.SNone
  | Ancestor.SErr => RefUpdate.SNone
  | Ancestor.SFuel => RefUpdate.SNone
  end.

(** store completeness in RefUpdate's own vocabulary: every parent of a stored commit is stored
    (= [Graph.closed (to_graph tm g)], for every [tm]) *)
Definition stored (g : RefUpdate.graph) (c : RefUpdate.commit) : Prop := In c (map fst g).
Definition store_closed (g : RefUpdate.graph) : Prop :=
  forall c p, stored g c -> In p (RefUpdate.parents g c) -> stored g p.
Definition store_closedb (g : RefUpdate.graph) : bool :=
  forallb (fun e : RefUpdate.commit * list RefUpdate.commit =>
             forallb (fun p => RefUpdate.cmem p (map fst g)) (RefUpdate.parents g (fst e))) g.

(** C11's merge-base soundness is a theorem for at most two inputs only (C11_base2_common; false
    for three: C11_base3_common_refuted).  SeekSound restricted to calls with at most [n] inputs: *)
Definition SeekSoundUpTo (n : nat) (g : RefUpdate.graph)
           (sk : list RefUpdate.commit -> RefUpdate.seekres) : Prop :=
  forall cs c, (length cs <= n)%nat -> sk cs = RefUpdate.SInput c ->
    In c cs /\ forall x, In x cs -> RefUpdate.anc g c x.

(** operations whose merge has at most two inputs: `wrgl merge BRANCH OTHER` (the branch and at
    most one other commit), `wrgl pull BRANCH REMOTE [REFSPEC]` (at most one refspec, hence at
    most one merge head besides the branch).  fetch and push never ask for a merge base. *)
Definition op_arity2b (o : RefUpdate.op) : bool :=
  match o with
  | RefUpdate.OMerge _ others _ _ => Nat.leb (length others) 1
  | RefUpdate.OPull _ specs _ _ _ => Nat.leb (length specs) 1
  | _ => true
  end.

(** proof device: C11's merge base on calls with at most two inputs, the specification-level merge
    base of RefUpdate on longer calls.  Histories of [op_arity2b] operations never make a longer
    call, so they run identically under [b_seek] and [b_seek_guard]. *)
Definition b_seek_guard (tm : N -> Z) (g : RefUpdate.graph) (cs : list RefUpdate.commit)
  : RefUpdate.seekres :=
  if Nat.leb (length cs) 2 then b_seek tm g cs else RefUpdate.seek_spec g cs.

(** What forward-only really needs of the merge base (weaker than SeekSound, and TRUE of C11's
    SeekCommonAncestor at every arity): a base reported as an input is an input and, unless no input
    different from it remains, an ancestor-or-self of SOME input that remains after runMerge has
    dropped every occurrence of it ([non_ancestral (SInput c) cs] = the inputs different from c). *)
Definition SeekWeak (g : RefUpdate.graph) (sk : list RefUpdate.commit -> RefUpdate.seekres) : Prop :=
  forall cs c, sk cs = RefUpdate.SInput c -> In c cs /\
    (RefUpdate.non_ancestral (RefUpdate.SInput c) cs = [] \/
     exists x, In x (RefUpdate.non_ancestral (RefUpdate.SInput c) cs) /\ RefUpdate.anc g c x).
