(** C07 - object transfer through packfiles: ObjectSender / ObjectReceiver.

    Executable Gallina transliteration of
      pkg/api/utils/object_sender.go   (NewObjectSender, enqueueNextCommit, enqueueTable, WriteObjects)
      pkg/api/utils/object_receiver.go (Receive, saveBlock, saveTable, saveCommit)
      pkg/ingest/index.go IndexTable, pkg/ingest/profile.go ProfileTable (their store reads/writes/rejections)
    Definitions only.

    Abstraction (content identity).  Object ids are abstract [N]s standing for the content of
    the object: MeowHash never enters Coq.  A packfile object is the pair (id the receiver
    computes from the bytes, parsed content); stores map id |-> content, so "byte-identical
    under identical ids" is equality of lookups.  s2 compression is abstracted the same way: a
    block is (b, z) with b the identity of the *decompressed* rows (= the key it is stored
    under) and z the identity of the compressed bytes that travel and are stored verbatim
    (SaveCompressedBlock); anything that fails s2.Decode / ValidateBlockBytes / ReadTableFrom /
    ReadCommitFrom is [OBad].  A block index is a function of (pk, block rows): it is named
    by that pair ([xid]); the table index and the profile are keyed by the table id.
    The row shape of a block is a function of its content, hence of its id: Section variable
    [bshape] (0 = no rows, 1 = ragged, w+2 = every row has w cells).
    [Table.ReadFrom] reads ceil(rows/255) block sums and the same number of block-index sums,
    so a parsed table carries a list of pairs (block id, recorded block-index id).

    Exchange format, see the end of the file ([run_C07]) and harness/c07.go. *)
From W.lib Require Import Tree.
From Coq Require Import List NArith Bool.
Import ListNotations.
Local Open Scope N_scope.

(** * Repository state *)

Definition xid := (list N * N)%type.   (* block index = (pk columns, block id) *)

Record commit := mkCommit { c_table : N; c_parents : list N }.
Record table := mkTable {
  t_cols : N;                   (* number of columns *)
  t_pk : list N;                (* pk column indices *)
  t_blocks : list (N * xid);    (* i-th block id, i-th recorded block-index id *)
  t_rest : N }.                 (* everything else in the table bytes (column names, row count) *)

Record repo := mkRepo {
  commits : list (N * commit);
  tables : list (N * table);
  blocks : list (N * N);        (* block id |-> compressed bytes identity *)
  blkidx : list xid;
  tblidx : list N;
  prof : list N }.

Definition empty_repo : repo := mkRepo [] [] [] [] [] [].

Fixpoint lookup {V} (k : N) (m : list (N * V)) : option V :=
  match m with
  | [] => None
  | (k', v) :: m' => if k =? k' then Some v else lookup k m'
  end.
Definition has {V} (k : N) (m : list (N * V)) : bool :=
  match lookup k m with Some _ => true | None => false end.
Definition memN (k : N) (l : list N) : bool := existsb (N.eqb k) l.
Fixpoint listN_eqb (a b : list N) : bool :=
  match a, b with
  | [], [] => true
  | x :: a', y :: b' => (x =? y) && listN_eqb a' b'
  | _, _ => false
  end.
Definition xid_eqb (x y : xid) : bool := listN_eqb (fst x) (fst y) && (snd x =? snd y).
Definition memX (x : xid) (l : list xid) : bool := existsb (xid_eqb x) l.

Definition has_commit (d : repo) (c : N) := has c (commits d).
Definition has_table (d : repo) (t : N) := has t (tables d).
Definition has_block (d : repo) (b : N) := has b (blocks d).

Definition put_commit d c cc := mkRepo ((c, cc) :: commits d) (tables d) (blocks d) (blkidx d) (tblidx d) (prof d).
Definition put_table d t tc := mkRepo (commits d) ((t, tc) :: tables d) (blocks d) (blkidx d) (tblidx d) (prof d).
Definition put_block d b z := mkRepo (commits d) (tables d) ((b, z) :: blocks d) (blkidx d) (tblidx d) (prof d).
Definition put_blkidx d x := mkRepo (commits d) (tables d) (blocks d) (x :: blkidx d) (tblidx d) (prof d).
Definition put_tblidx d t := mkRepo (commits d) (tables d) (blocks d) (blkidx d) (t :: tblidx d) (prof d).
Definition put_prof d t := mkRepo (commits d) (tables d) (blocks d) (blkidx d) (tblidx d) (t :: prof d).

Definition tbl_blocks (tc : table) : list N := map fst (t_blocks tc).
Definition reindex (pk : list N) (b : N) : xid := (pk, b).

(** * Packfile objects *)

Inductive obj :=
| OBlock (b z : N)
| OTable (t : N) (tc : table)
| OCommit (c : N) (cc : commit)
| OBad.                        (* bytes the decoder / validator of the announced kind rejects *)

Section Transfer.

Variable bshape : N -> N.
Definition fits (cols b : N) : bool := bshape b =? cols + 2.

(** * Receiver *)

Inductive rres := ROk (d : repo) | RErr (d : repo).   (* RErr carries the writes already made *)

(* saveBlock: s2.Decode, ValidateBlockBytes (both succeeded: otherwise the object is OBad),
   SaveCompressedBlock under the hash of the decoded rows *)
Definition recv_block (d : repo) (b z : N) : rres := ROk (put_block d b z).

(* the loop of ingest.IndexTable: GetBlock, non-empty, row width, IndexBlock,
   SaveBlockIndex (written BEFORE it is compared), compare with the recorded sum *)
Fixpoint index_blocks (d : repo) (cols : N) (pk : list N) (bl : list (N * xid)) : rres :=
  match bl with
  | [] => ROk d
  | (b, x) :: rest =>
    if negb (has_block d b) then RErr d
    else if negb (fits cols b) then RErr d
    else let d' := put_blkidx d (reindex pk b) in
         if xid_eqb (reindex pk b) x then index_blocks d' cols pk rest else RErr d'
  end.

(* saveTable: ReadTableFrom (ok: otherwise OBad); IndexTable = pk range check, index_blocks,
   SaveTableIndex; ProfileTable = GetBlock of every block, SaveTableProfile; SaveTable last *)
Definition recv_table (d : repo) (t : N) (tc : table) : rres :=
  if negb (forallb (fun k => k <? t_cols tc) (t_pk tc)) then RErr d else
  match index_blocks d (t_cols tc) (t_pk tc) (t_blocks tc) with
  | RErr d' => RErr d'
  | ROk d1 =>
    let d2 := put_tblidx d1 t in
    if negb (forallb (has_block d2) (tbl_blocks tc)) then RErr d2 else
    ROk (put_table (put_prof d2 t) t tc)
  end.

(* saveCommit: ReadCommitFrom (ok), every parent must exist, SaveCommit *)
Definition recv_commit (d : repo) (c : N) (cc : commit) : rres :=
  if forallb (has_commit d) (c_parents cc) then ROk (put_commit d c cc) else RErr d.

Definition recv_obj (d : repo) (o : obj) : rres :=
  match o with
  | OBlock b z => recv_block d b z
  | OTable t tc => recv_table d t tc
  | OCommit c cc => recv_commit d c cc
  | OBad => RErr d
  end.

(* Receive: objects of one packfile in order, stop at the first rejection *)
Fixpoint recv_all (d : repo) (objs : list obj) : rres :=
  match objs with
  | [] => ROk d
  | o :: rest => match recv_obj d o with
                 | ROk d' => recv_all d' rest
                 | RErr d' => RErr d'
                 end
  end.

(** * Sender *)

Inductive qobj := QBlock (b : N) | QTable (t : N) (tc : table) | QCommit (c : N) (cc : commit).

Record sender := mkSender {
  s_commits : list (N * commit);   (* s.commits *)
  s_tbs : list N;                  (* s.tables (tablesToSend) *)
  s_objs : list qobj;              (* s.objs *)
  s_ct : list N;                   (* s.commonTables *)
  s_cb : list N }.                 (* s.commonBlocks *)

(* getCommonTables: GetCommit of every common commit, error if one is missing *)
Fixpoint common_tables (src : repo) (commons : list N) : option (list N) :=
  match commons with
  | [] => Some []
  | c :: rest =>
    match lookup c (commits src), common_tables src rest with
    | Some cc, Some l => Some (c_table cc :: l)
    | _, _ => None
    end
  end.

(* getCommonBlocks: blocks of the common tables the source holds; missing tables are skipped *)
Definition src_tbl_blocks (src : repo) (t : N) : list N :=
  match lookup t (tables src) with Some tc => tbl_blocks tc | None => [] end.
Definition common_blocks (src : repo) (ct : list N) : list N := flat_map (src_tbl_blocks src) ct.

(* the block loop of enqueueTable *)
Fixpoint enqueue_blocks (bl : list N) (objs : list qobj) (cb : list N) : list qobj * list N :=
  match bl with
  | [] => (objs, cb)
  | b :: rest => if memN b cb then enqueue_blocks rest objs cb
                 else enqueue_blocks rest (objs ++ [QBlock b]) (b :: cb)
  end.

Definition enqueue_table (src : repo) (t : N) (objs : list qobj) (cb : list N) : list qobj * list N :=
  match lookup t (tables src) with
  | None => (objs, cb)                       (* ErrKeyNotFound: return nil *)
  | Some tc => let '(objs', cb') := enqueue_blocks (tbl_blocks tc) objs cb in
               (objs' ++ [QTable t tc], cb')
  end.

Definition enqueue_next (src : repo) (s : sender) : sender :=
  match s_commits s with
  | [] => s
  | (c, cc) :: rest =>
    let t := c_table cc in
    if memN t (s_tbs s) && negb (memN t (s_ct s)) then
      let '(objs', cb') := enqueue_table src t (s_objs s) (s_cb s) in
      mkSender rest (s_tbs s) (objs' ++ [QCommit c cc]) (t :: s_ct s) cb'
    else mkSender rest (s_tbs s) (s_objs s ++ [QCommit c cc]) (s_ct s) (s_cb s)
  end.

Definition new_sender (src : repo) (to_send : list (N * commit)) (tbs commons : list N) : option sender :=
  match common_tables src commons with
  | None => None
  | Some ct => Some (enqueue_next src (mkSender to_send tbs [] ct (common_blocks src ct)))
  end.

(* what WriteObjects puts on the wire for a queued object; a queued block is read from the
   source store at this point (GetBlockBytes) and may be missing *)
Definition emit (src : repo) (q : qobj) : option obj :=
  match q with
  | QBlock b => match lookup b (blocks src) with Some z => Some (OBlock b z) | None => None end
  | QTable t tc => Some (OTable t tc)
  | QCommit c cc => Some (OCommit c cc)
  end.

Definition s_done (s : sender) : bool :=
  match s_objs s, s_commits s with [], [] => true | _, _ => false end.

Inductive wres := WOk (s : sender) (pack : list obj) (done : bool) | WErr | WFuel.

Variable size : obj -> N.      (* bytes WriteObject reports for the object (header + payload) *)

Fixpoint write_loop (fuel : nat) (src : repo) (max : N) (s : sender) (sz : N) : wres :=
  match s_objs s with
  | [] => WOk s [] (s_done s)
  | q :: rest =>
    match fuel with
    | O => WFuel
    | S fuel' =>
      match emit src q with
      | None => WErr
      | Some o =>
        let s1 := mkSender (s_commits s) (s_tbs s) rest (s_ct s) (s_cb s) in
        let s2 := match rest with [] => enqueue_next src s1 | _ => s1 end in
        let sz' := sz + size o in
        if max <=? sz' then WOk s2 [o] (s_done s2)
        else match write_loop fuel' src max s2 sz' with
             | WOk s3 pack done => WOk s3 (o :: pack) done
             | r => r
             end
      end
    end
  end.

Definition nblocks (src : repo) (t : N) : nat := length (src_tbl_blocks src t).
Definition sender_measure (src : repo) (s : sender) : nat :=
  (length (s_objs s) + fold_right (fun p acc => 2 + nblocks src (c_table (snd p)) + acc) 0 (s_commits s))%nat.

Definition write_objects (src : repo) (max : N) (s : sender) : wres :=
  write_loop (sender_measure src s) src max s 0.

(** * The transfer loop:  for { WriteObjects; NewPackfileReader; Receive; if done break } *)

Inductive tres :=
| TDone (d : repo) (packs : list (list obj))       (* sender reported done *)
| TRecvErr (d : repo) (packs : list (list obj))    (* Receive returned an error on the last pack *)
| TSendErr (d : repo) (packs : list (list obj))    (* WriteObjects returned an error *)
| TFuel.

Definition tcons (p : list obj) (r : tres) : tres :=
  match r with
  | TDone d ps => TDone d (p :: ps)
  | TRecvErr d ps => TRecvErr d (p :: ps)
  | TSendErr d ps => TSendErr d (p :: ps)
  | TFuel => TFuel
  end.

Fixpoint transfer_loop (fuel : nat) (src : repo) (max : N) (s : sender) (d : repo) : tres :=
  match fuel with
  | O => TFuel
  | S fuel' =>
    match write_objects src max s with
    | WErr => TSendErr d []
    | WFuel => TFuel
    | WOk s' pack done =>
      match recv_all d pack with
      | RErr d' => TRecvErr d' [pack]
      | ROk d' => if done then TDone d' [pack] else tcons pack (transfer_loop fuel' src max s' d')
      end
    end
  end.

Definition transfer (src : repo) (to_send : list (N * commit)) (tbs commons : list N) (max : N) (dst : repo) : tres :=
  match new_sender src to_send tbs commons with
  | None => TSendErr dst []
  | Some s => transfer_loop (S (sender_measure src s)) src max s dst
  end.

(* the packfiles a sender produces when nobody stops it (used for transit-damage cases) *)
Fixpoint sender_packs (fuel : nat) (src : repo) (max : N) (s : sender) : option (list (list obj)) :=
  match fuel with
  | O => None
  | S fuel' =>
    match write_objects src max s with
    | WOk s' pack done =>
      if done then Some [pack]
      else match sender_packs fuel' src max s' with Some l => Some (pack :: l) | None => None end
    | _ => None
    end
  end.

(** The object stream of a sender, independent of any size limit (specification-side
    definition used by the theorems and by the hostile-stream cases): drain the queue,
    refilling it exactly where WriteObjects does. *)
Fixpoint drain (fuel : nat) (src : repo) (s : sender) : option (list obj) :=
  match s_objs s with
  | [] => Some []
  | q :: rest =>
    match fuel with
    | O => None
    | S fuel' =>
      match emit src q with
      | None => None
      | Some o =>
        let s1 := mkSender (s_commits s) (s_tbs s) rest (s_ct s) (s_cb s) in
        let s2 := match rest with [] => enqueue_next src s1 | _ => s1 end in
        match drain fuel' src s2 with Some l => Some (o :: l) | None => None end
      end
    end
  end.

Definition stream (src : repo) (to_send : list (N * commit)) (tbs commons : list N) : option (list obj) :=
  match new_sender src to_send tbs commons with
  | None => None
  | Some s => drain (sender_measure src s) src s
  end.

End Transfer.

(** * Correspondence driver

    case = (tag world params)
    world  = (tables commits blocksizes srcdrop)
      tables     = ((pkv (chunk ...) size) ...)    table i; 3 columns; variant pkv = column layout + key:
                                                   0: id,a,b pk=[0]   1: id,a,b pk=[0,1]
                                                   2: a,id,b pk=[1]   3: a,b,id pk=[2,0]   (layouts 0,0,1,2)
                                                   abstract table id = first index with equal (pkv, chunks)
      commits    = ((tableidx (parentidx ...) size tz) ...)   commit i (abstract id i), parents < i;
                                                   tz (author zone, minutes + 2000) is content the model does not look at
      blocksizes = ((block size) ...)              abstract block id = chunk number + 1000 * layout
      srcdrop    = ((tableidx ...) (block ...))    table objects / block objects deleted from the source
    tag 0 (honest transfer): params = (tosend tbs commons max dstpre)
      tosend  = (commitidx ...) in send order;  tbs = (tableidx ...);  commons = (commitidx ...)
      dstpre  = ((commitidx ...) (tableidx ...) (block ...) [tblobj tblidx prof blkidx stale])
                commits / full tables (blocks, indices, profile) / bare blocks copied to the destination
                beforehand, then PER OBJECT KIND: tblobj = (tableidx ...) the table object alone,
                tblidx / prof = (tableidx ...) the table index / profile alone, blkidx = ((tableidx j) ...)
                the j-th block index of a table alone, stale = (tableidx ...) table index and profile
                present but with foreign content
    tag 1 (hostile stream): params = (tosend tbs commons dstpre ops cut)
      the honest sender's object stream, edited by ops, re-framed [cut] objects per packfile
      op = (0 i) drop | (1 i j) swap | (2 i k) tamper with kind k | (3 i) append a copy of object i
      tamper kinds on a table: 0 first recorded block-index sum replaced, 1 one more column, 2 pk = [7],
      4 pk = [number of columns] (first out-of-range value), other: undecodable; on a commit: 0 unknown
      extra parent, other: undecodable; on a block: invalid bytes
    tag 2 (transit damage): params = (tosend tbs commons max dstpre cutpack j where)
      the honest transfer, but packfile number cutpack is truncated: where = 9: at the boundary before
      object j (a legitimately shorter packfile: its first j objects); where = 0..3: strictly inside
      object j (0 inside its type/length header, 1 right after the header, 2 mid-body, 3 one byte
      before its end): the packfile reader must fail there, i.e. the receiver sees the first j
      objects and then something undecodable.  After a boundary cut the remaining packfiles follow
      (the sender has moved on); after a rejection the transfer stops.
    observation = (status recvdone packs final)
      status 0 ok, 1 receiver rejected, 2 sender error, 3 out of fuel
      recvdone = every commit of tosend was stored by this receiver
      packs = (((kind id) ...) ...)  kind 1 commit, 2 table, 3 block, 0 undecodable (id 0)
      final = (commits tables blocks blkidx tblidx prof), each a sorted duplicate-free list of
              abstract ids; a blkidx id is (pkv chunk). *)

Definition c07_shape (_ : N) : N := 5.    (* every block of the harness has rows of 3 cells *)

Definition pk_of_pkv (v : N) : list N :=
  if v =? 0 then [0] else if v =? 1 then [0; 1] else if v =? 2 then [1] else [2; 0].
Definition pkv_of_pk (pk : list N) : N :=
  if listN_eqb pk [0] then 0 else if listN_eqb pk [0; 1] then 1
  else if listN_eqb pk [1] then 2 else if listN_eqb pk [2; 0] then 3 else 9.
Definition layout_of_pkv (v : N) : N := if v <? 2 then 0 else if v =? 2 then 1 else 2.

Record wtable := mkWT { wt_pkv : N; wt_chunks : list N; wt_size : N }.
Record wcommit := mkWC { wc_tbl : N; wc_parents : list N; wc_size : N }.

Definition d_wtable (t : tree) : wtable := mkWT (d_N (d_nth 0 t)) (d_list d_N (d_nth 1 t)) (d_N (d_nth 2 t)).
Definition d_wcommit (t : tree) : wcommit := mkWC (d_N (d_nth 0 t)) (d_list d_N (d_nth 1 t)) (d_N (d_nth 2 t)).

Definition wt_same (a b : wtable) : bool := (wt_pkv a =? wt_pkv b) && listN_eqb (wt_chunks a) (wt_chunks b).

(* first index holding the same table content *)
Fixpoint canon_from (wts : list wtable) (w : wtable) (i : N) : N :=
  match wts with
  | [] => i
  | w' :: rest => if wt_same w' w then i else canon_from rest w (i + 1)
  end.
Definition canon (wts : list wtable) (i : N) : N :=
  match nth_error wts (N.to_nat i) with
  | Some w => canon_from wts w 0
  | None => i
  end.

Definition table_of (w : wtable) : table :=
  let pk := pk_of_pkv (wt_pkv w) in
  let off := 1000 * layout_of_pkv (wt_pkv w) in
  mkTable 3 pk (map (fun k => (k + off, reindex pk (k + off))) (wt_chunks w)) 0.

Fixpoint numbered {A} (i : N) (l : list A) : list (N * A) :=
  match l with [] => [] | a :: l' => (i, a) :: numbered (i + 1) l' end.

Definition commit_of (wts : list wtable) (w : wcommit) : commit := mkCommit (canon wts (wc_tbl w)) (wc_parents w).

Definition full_tables (wts : list wtable) (idxs : list N) : list (N * table) :=
  flat_map (fun i => match nth_error wts (N.to_nat i) with
                     | Some w => [(canon wts i, table_of w)]
                     | None => [] end) idxs.

Definition all_idx {A} (l : list A) : list N := map fst (numbered 0 l).

Definition build_src (wts : list wtable) (wcs : list wcommit) (drop_t drop_b : list N) : repo :=
  let keep_t := filter (fun i => negb (memN (canon wts i) (map (canon wts) drop_t))) (all_idx wts) in
  let tbls := full_tables wts (all_idx wts) in
  let blks := flat_map (fun p => tbl_blocks (snd p)) tbls in
  mkRepo (map (fun p => (fst p, commit_of wts (snd p))) (numbered 0 wcs))
         (full_tables wts keep_t)
         (map (fun b => (b, b)) (filter (fun b => negb (memN b drop_b)) blks))
         (flat_map (fun p => map snd (t_blocks (snd p))) tbls)
         (map fst tbls) (map fst tbls).

(* per-kind pre-population: table objects alone, table indices alone, profiles alone,
   single block indices (table index, position), stale index+profile *)
Record prekinds := mkPK { pk_to : list N; pk_ti : list N; pk_tp : list N; pk_x : list (N * N); pk_stale : list N }.
Definition no_prekinds : prekinds := mkPK [] [] [] [] [].

Definition build_dst (wts : list wtable) (wcs : list wcommit) (pre_c pre_t pre_b : list N) (k : prekinds) : repo :=
  let tbls := full_tables wts pre_t in
  let xs := flat_map (fun p => match nth_error wts (N.to_nat (fst p)) with
                               | Some w => match nth_error (t_blocks (table_of w)) (N.to_nat (snd p)) with
                                           | Some bx => [snd bx] | None => [] end
                               | None => [] end) (pk_x k) in
  mkRepo (flat_map (fun c => match nth_error wcs (N.to_nat c) with
                             | Some w => [(c, commit_of wts w)] | None => [] end) pre_c)
         (tbls ++ full_tables wts (pk_to k))
         (map (fun b => (b, b)) (flat_map (fun p => tbl_blocks (snd p)) tbls ++ pre_b))
         (flat_map (fun p => map snd (t_blocks (snd p))) tbls ++ xs)
         (map fst tbls ++ map (canon wts) (pk_ti k) ++ map (canon wts) (pk_stale k))
         (map fst tbls ++ map (canon wts) (pk_tp k) ++ map (canon wts) (pk_stale k)).

Definition obj_size (wts : list wtable) (wcs : list wcommit) (bs : list (N * N)) (o : obj) : N :=
  match o with
  | OBlock b _ => match lookup b bs with Some s => s | None => 1 end
  | OTable t _ => match nth_error wts (N.to_nat t) with Some w => wt_size w | None => 1 end
  | OCommit c _ => match nth_error wcs (N.to_nat c) with Some w => wc_size w | None => 1 end
  | OBad => 1
  end.

(* sorted, duplicate-free *)
Fixpoint insN (x : N) (l : list N) : list N :=
  match l with
  | [] => [x]
  | y :: l' => if x <? y then x :: l else if x =? y then l else y :: insN x l'
  end.
Definition sortN (l : list N) : list N := fold_right insN [] l.

Definition t_xid (n : N) : tree := Node [Leaf (n / 1000000); Leaf (n mod 1000000)].
Definition t_final (d : repo) : tree :=
  Node [ t_list Leaf (sortN (map fst (commits d)));
         t_list Leaf (sortN (map fst (tables d)));
         t_list Leaf (sortN (map fst (blocks d)));
         t_list t_xid (sortN (map (fun x => pkv_of_pk (fst x) * 1000000 + snd x) (blkidx d)));
         t_list Leaf (sortN (tblidx d));
         t_list Leaf (sortN (prof d)) ].

Definition t_obj (o : obj) : tree :=
  match o with
  | OCommit c _ => Node [Leaf 1; Leaf c]
  | OTable t _ => Node [Leaf 2; Leaf t]
  | OBlock b _ => Node [Leaf 3; Leaf b]
  | OBad => Node [Leaf 0; Leaf 0]
  end.
Definition t_packs (ps : list (list obj)) : tree := t_list (t_list t_obj) ps.

Definition stored_commits (ps : list (list obj)) (d : repo) : list N :=
  flat_map (fun o => match o with OCommit c _ => [c] | _ => [] end) (concat ps).

(* recvdone: expectedCommits emptied.  Only evaluated when no rejection happened. *)
Definition recv_done (to_send : list N) (ps : list (list obj)) (d : repo) : bool :=
  forallb (fun c => memN c (stored_commits ps d)) to_send.

(** hostile edits *)
Definition tamper (k : N) (o : obj) : obj :=
  match o with
  | OTable t tc =>
    if k =? 0 then
      match t_blocks tc with
      | [] => o
      | (b, x) :: rest =>
        if xid_eqb x ([9], 999) then o
        else OTable (1000 + t) (mkTable (t_cols tc) (t_pk tc) ((b, ([9], 999)) :: rest) (t_rest tc))
      end
    else if k =? 1 then OTable (2000 + t) (mkTable (t_cols tc + 1) (t_pk tc) (t_blocks tc) (t_rest tc))
    else if k =? 2 then
      if listN_eqb (t_pk tc) [7] then o
      else OTable (3000 + t) (mkTable (t_cols tc) [7] (t_blocks tc) (t_rest tc))
    else if k =? 4 then
      if listN_eqb (t_pk tc) [t_cols tc] then o
      else OTable (4000 + t) (mkTable (t_cols tc) [t_cols tc] (t_blocks tc) (t_rest tc))
    else OBad
  | OCommit c cc =>
    if k =? 0 then OCommit (1000 + c) (mkCommit (c_table cc) (c_parents cc ++ [777])) else OBad
  | OBlock _ _ => OBad
  | OBad => OBad
  end.

Fixpoint set_nth {A} (i : nat) (a : A) (l : list A) : list A :=
  match l, i with
  | [], _ => []
  | _ :: l', O => a :: l'
  | x :: l', S i' => x :: set_nth i' a l'
  end.
Fixpoint del_nth {A} (i : nat) (l : list A) : list A :=
  match l, i with
  | [], _ => []
  | _ :: l', O => l'
  | x :: l', S i' => x :: del_nth i' l'
  end.

Definition apply_op (l : list obj) (op : tree) : list obj :=
  let i := d_nat (d_nth 1 op) in
  match d_N (d_nth 0 op), nth_error l i with
  | 0, Some _ => del_nth i l
  | 1, Some a => let j := d_nat (d_nth 2 op) in
                 match nth_error l j with
                 | Some b => set_nth j a (set_nth i b l)
                 | None => l
                 end
  | 2, Some a => set_nth i (tamper (d_N (d_nth 2 op)) a) l
  | 3, Some a => l ++ [a]
  | _, _ => l
  end.

Fixpoint chunk_by (fuel : nat) (n : nat) (l : list obj) : list (list obj) :=
  match fuel, l with
  | _, [] => []
  | O, _ => [l]
  | S f, _ => firstn n l :: chunk_by f n (skipn n l)
  end.

(* receive packfile after packfile, stop at the first rejection *)
Fixpoint recv_packs (d : repo) (ps : list (list obj)) (seen : list (list obj)) : N * repo * list (list obj) :=
  match ps with
  | [] => (0, d, seen)
  | p :: rest => match recv_all c07_shape d p with
                 | ROk d' => recv_packs d' rest (seen ++ [p])
                 | RErr d' => (1, d', seen ++ [p])
                 end
  end.

(* truncation of one packfile, at the level of objects *)
Definition cut_pack (j : nat) (inside : bool) (pack : list obj) : list obj :=
  if inside then match nth_error pack j with Some _ => firstn j pack ++ [OBad] | None => pack end
  else firstn j pack.
Fixpoint cut_at (p : nat) (j : nat) (inside : bool) (packs : list (list obj)) : list (list obj) :=
  match packs, p with
  | [], _ => []
  | pk :: rest, O => cut_pack j inside pk :: rest
  | pk :: rest, S p' => pk :: cut_at p' j inside rest
  end.

Definition run_C07 (c : tree) : tree :=
  let w := d_nth 1 c in
  let p := d_nth 2 c in
  let wts := d_list d_wtable (d_nth 0 w) in
  let wcs := d_list d_wcommit (d_nth 1 w) in
  let bs := d_list (fun t => (d_N (d_nth 0 t), d_N (d_nth 1 t))) (d_nth 2 w) in
  let src := build_src wts wcs (d_list d_N (d_nth 0 (d_nth 3 w))) (d_list d_N (d_nth 1 (d_nth 3 w))) in
  let ts_idx := d_list d_N (d_nth 0 p) in
  let to_send := flat_map (fun c => match nth_error wcs (N.to_nat c) with
                                    | Some wc => [(c, commit_of wts wc)] | None => [] end) ts_idx in
  let tbs := map (canon wts) (d_list d_N (d_nth 1 p)) in
  let commons := d_list d_N (d_nth 2 p) in
  let mkdst pre := build_dst wts wcs (d_list d_N (d_nth 0 pre)) (d_list d_N (d_nth 1 pre)) (d_list d_N (d_nth 2 pre))
                     (mkPK (d_list d_N (d_nth 3 pre)) (d_list d_N (d_nth 4 pre)) (d_list d_N (d_nth 5 pre))
                           (d_list (fun t => (d_N (d_nth 0 t), d_N (d_nth 1 t))) (d_nth 6 pre))
                           (d_list d_N (d_nth 7 pre))) in
  let out st ps d := Node [Leaf st; t_bool (if st =? 0 then recv_done ts_idx ps d else false); t_packs ps; t_final d] in
  if d_N (d_nth 0 c) =? 2 then
    let max := d_N (d_nth 3 p) in
    let dst := mkdst (d_nth 4 p) in
    match new_sender src to_send tbs commons with
    | None => out 2 [] dst
    | Some s =>
      match sender_packs (obj_size wts wcs bs) (S (sender_measure src s)) src max s with
      | None => out 2 [] dst
      | Some packs =>
        let packs' := cut_at (d_nat (d_nth 5 p)) (d_nat (d_nth 6 p)) (negb (d_N (d_nth 7 p) =? 9)) packs in
        let '(st, d, seen) := recv_packs dst packs' [] in
        out st seen d
      end
    end
  else if d_N (d_nth 0 c) =? 0 then
    let max := d_N (d_nth 3 p) in
    let dst := mkdst (d_nth 4 p) in
    match transfer c07_shape (obj_size wts wcs bs) src to_send tbs commons max dst with
    | TDone d ps => out 0 ps d
    | TRecvErr d ps => out 1 ps d
    | TSendErr d ps => out 2 ps d
    | TFuel => Node [Leaf 3]
    end
  else
    let dst := mkdst (d_nth 3 p) in
    match stream src to_send tbs commons with
    | None => out 2 [] dst
    | Some objs =>
      let objs' := fold_left apply_op (d_list (fun t => t) (d_nth 4 p)) objs in
      let cut := N.to_nat (N.max 1 (d_N (d_nth 5 p))) in
      let packs := match objs' with [] => [[]] | _ => chunk_by (length objs') cut objs' end in
      let '(st, d, seen) := recv_packs dst packs [] in
      out st seen d
    end.
