(** C15 - concrete model of pkg/ref/sql/store.go + logreader.go: every method is
    the sequence of SQL statements it runs, over two tables

      refs    (name TEXT NOT NULL PRIMARY KEY, sum BLOB NOT NULL)
      reflogs (ref, ordinal, oldoid, newoid, authorname, authoremail, time,
               action, message, txid, PRIMARY KEY (ref, ordinal))

    kept as lists of rows (a table is a bag of rows; the list order is only the
    representation - no statement below depends on it except through ORDER BY,
    which is an explicit sort).  A statement either yields a new database or
    fails ([None]): PRIMARY KEY conflict, NOT NULL violation.  sqlutil.RunInTx
    rolls the whole body back on the first failing statement ([in_tx]).
    Foreign keys are not enforced (SQLite default; repo_dir.go does not switch
    them on).  TEXT comparison ([name = ?], ORDER BY name) is BINARY collation
    = byte-wise ([bcmp]).  The reflog time column is not modelled.
    Values are non-NULL byte strings (callers pass 16-byte sums).

    The WHERE clause built by filterQuery is parametric in [filter_kind]
    (regenerated from the Go source by the translator; gen/Tie_C15.v checks
    [filter_ok]): FInstr is the current code [instr(name, ?) = 1] / [!= 1],
    FLike the pre-fix code [name LIKE ?||'%'] / [NOT LIKE].

    Exchange format (run_C15), also documented in harness/c15.go:
      case  = (0 (op ...))                      an operation sequence on a fresh store
            | (1 p s)                           SQLite predicates: -> (like(p||'%', s) instr(s,p)=1)
            | (2 (op ...))                      as 0, run by the harness on an on-disk repository
                                                through the real `wrgl remote rename|remove` (ops 17/18)
            | (3 (op ...))                      as 0 (long-log cases; the harness always runs the file store too)
      op    = (0 k v) Set | (1 k v meta) SetWithLog | (2 k) Get | (3 k) Delete
            | (4 (p ...) (n ...)) Filter | (5 (p ...) (n ...)) FilterKey
            | (6 a b) Rename | (7 a b) Copy | (8 k) LogReader+Read*
            | (9 r) DeleteAllRemoteRefs | (10 r r') RenameAllRemoteRefs
            | (11 id) DeleteTransactionRefs (id = uuid text)
            | (12 kind arg) ListHeads(0) ListTags(1) ListRemoteRefs(2 arg) ListTransactionRefs(3 arg)
            | (13 a b) RenameRef | (14 a b) CopyRef | (15 k v meta) SaveRef
            | (16 (p ...) (n ...)) ListLocalRefs
            | (17 r r') `wrgl remote rename r r'` (r <> r') | (18 r) `wrgl remote remove r`
      meta  = (author email action message txid?)      txid? = () | (bytes)
      obs   = (res ...) one per op
      res   = (0) ok | (1) error | (2) panic | (3 v) | (4 ((k v) ...)) sorted by k
            | (5 (k ...)) | (6 (ent ...) complete)
      ent   = (old? new author email action message txid?)   old? = () | (bytes) *)
From W.lib Require Import Tree Bytes.
From W.model Require Import RefStore Like.
From Coq Require Import Arith.
From Coq Require Import String.
Local Open Scope N_scope.

Inductive filter_kind := FLike | FInstr | FUnknown.

Definition filter_kind_of_string (s : String.string) : filter_kind :=
  if String.eqb s "LIKE"%string then FLike
  else if String.eqb s "INSTR"%string then FInstr
  else FUnknown.

Definition filter_ok (k : filter_kind) : bool :=
  match k with FInstr => true | _ => false end.

(* one prefix condition of the WHERE clause, on one row *)
Definition cond (fk : filter_kind) (p nm : bytes) : bool :=
  match fk with
  | FLike => like_prefix p nm
  | FInstr => instr_prefix p nm
  | FUnknown => false
  end.

(** ** Tables *)
Record row := mk_row {
  r_ref : name; r_ord : nat; r_old : option value; r_new : value; r_meta : meta }.

Record db := mk_db { t_refs : list (name * value); t_logs : list row }.

Definition cinit : db := mk_db [] [].

(** ** Statements *)
(* SELECT sum FROM refs WHERE name = ? *)
Definition sql_select_sum (k : name) (d : db) : option value := m_get k (t_refs d).

(* INSERT INTO refs (name, sum) VALUES (?, ?) ON CONFLICT (name) DO UPDATE SET sum=excluded.sum *)
Fixpoint upsert (k : name) (v : value) (l : list (name * value)) : list (name * value) :=
  match l with
  | [] => [(k, v)]
  | (k', v') :: l' => if beqb k k' then (k', v) :: l' else (k', v') :: upsert k v l'
  end.
Definition sql_upsert_ref (k : name) (v : value) (d : db) : db :=
  mk_db (upsert k v (t_refs d)) (t_logs d).

(* INSERT INTO refs (name, sum) VALUES (?, <v>): NOT NULL on sum, PRIMARY KEY on name *)
Definition sql_insert_ref (k : name) (v : option value) (d : db) : option db :=
  match v with
  | None => None
  | Some v' =>
      match m_get k (t_refs d) with
      | Some _ => None
      | None => Some (mk_db (t_refs d ++ [(k, v')]) (t_logs d))
      end
  end.

(* DELETE FROM refs WHERE name = ? *)
Definition sql_delete_ref (k : name) (d : db) : db :=
  mk_db (filter (fun kv => negb (beqb k (fst kv))) (t_refs d)) (t_logs d).

(* DELETE FROM reflogs WHERE ref = ? *)
Definition sql_delete_logs (k : name) (d : db) : db :=
  mk_db (t_refs d) (filter (fun r => negb (beqb k (r_ref r))) (t_logs d)).

Definition rows_of (k : name) (l : list row) : list row :=
  filter (fun r => beqb k (r_ref r)) l.

(* SELECT COUNT( * ) FROM reflogs WHERE ref = ? *)
Definition sql_count_logs (k : name) (d : db) : nat := List.length (rows_of k (t_logs d)).

(* ... FROM reflogs WHERE ref = ? AND ordinal = ? *)
Definition sql_select_log (k : name) (o : nat) (d : db) : option row :=
  find (fun r => beqb k (r_ref r) && Nat.eqb o (r_ord r)) (t_logs d).

Definition pk_taken (k : name) (o : nat) (l : list row) : bool :=
  existsb (fun r => beqb k (r_ref r) && Nat.eqb o (r_ord r)) l.

(* INSERT INTO reflogs (...) VALUES (...): PRIMARY KEY (ref, ordinal) *)
Definition sql_insert_log (r : row) (d : db) : option db :=
  if pk_taken (r_ref r) (r_ord r) (t_logs d) then None
  else Some (mk_db (t_refs d) (t_logs d ++ [r])).

(* UPDATE reflogs SET ref = ? WHERE ref = ?  (new, old) *)
Definition sql_move_logs (nw old : name) (d : db) : option db :=
  if beqb nw old then Some d
  else if existsb (fun r => pk_taken nw (r_ord r) (t_logs d)) (rows_of old (t_logs d)) then None
  else Some (mk_db (t_refs d)
       (map (fun r => if beqb old (r_ref r)
                      then mk_row nw (r_ord r) (r_old r) (r_new r) (r_meta r) else r) (t_logs d))).

(* INSERT INTO reflogs SELECT ? AS ref, ordinal, ... FROM reflogs WHERE ref = ?  (dst, src) *)
Definition sql_copy_logs (dst src : name) (d : db) : option db :=
  let src_rows := rows_of src (t_logs d) in
  if existsb (fun r => pk_taken dst (r_ord r) (t_logs d)) src_rows then None
  else Some (mk_db (t_refs d)
       (t_logs d ++ map (fun r => mk_row dst (r_ord r) (r_old r) (r_new r) (r_meta r)) src_rows)).

(* sqlutil.RunInTx *)
Definition in_tx (d : db) (body : option db) : db * res :=
  match body with Some d' => (d', ROk) | None => (d, RErr) end.

Definition bind {A B} (o : option A) (f : A -> option B) : option B :=
  match o with Some a => f a | None => None end.

(** ** ORDER BY name *)
Fixpoint ins_by_name (kv : name * value) (l : list (name * value)) : list (name * value) :=
  match l with
  | [] => [kv]
  | x :: l' => if bleb (fst kv) (fst x) then kv :: l else x :: ins_by_name kv l'
  end.
Definition sort_by_name (l : list (name * value)) : list (name * value) :=
  fold_right ins_by_name [] l.

(** ** filterQuery *)
Definition where_clause (fk : filter_kind) (ps ns : list bytes) (nm : name) : bool :=
  (match ps with [] => true | _ => existsb (fun p => cond fk p nm) ps end)
  && forallb (fun p => negb (cond fk p nm)) ns.

Definition sql_select_where (fk : filter_kind) (ps ns : list bytes) (d : db) : list (name * value) :=
  filter (fun kv => where_clause fk ps ns (fst kv)) (t_refs d).

(** ** ReflogReader: ordinal c, c-1, ..., 1; a missing row is a Scan error *)
Definition ent_of_row (r : row) : logent := mk_logent (r_old r) (r_new r) (r_meta r).

Fixpoint read_logs (k : name) (c : nat) (d : db) : list logent * bool :=
  match c with
  | O => ([], true)
  | S c' =>
      match sql_select_log k c d with
      | None => ([], false)
      | Some r => let '(l, ok) := read_logs k c' d in (ent_of_row r :: l, ok)
      end
  end.

(** ** Methods of refsql.Store *)
Definition cstep (fk : filter_kind) (d : db) (p : prim) : db * res :=
  match p with
  | PSet k v => (sql_upsert_ref k v d, ROk)
  | PSetLog k v m =>
      in_tx d (
        let old := sql_select_sum k d in
        let d1 := sql_upsert_ref k v d in
        sql_insert_log (mk_row k (sql_count_logs k d1 + 1)%nat old v m) d1)
  | PGet k => (d, match sql_select_sum k d with Some v => RVal v | None => RErr end)
  | PDelete k => in_tx d (Some (sql_delete_ref k (sql_delete_logs k d)))
  | PFilter ps ns => (d, RMap (sort_by_name (sql_select_where fk ps ns d)))
  | PFilterKey ps ns => (d, RKeys (map fst (sort_by_name (sql_select_where fk ps ns d))))
  | PRename a b =>
      in_tx d (
        match sql_select_sum a d with
        | None => None                              (* Scan: sql.ErrNoRows *)
        | Some sum =>
            bind (sql_insert_ref b (Some sum) d) (fun d1 =>
            bind (sql_move_logs b a d1) (fun d2 =>
            Some (sql_delete_ref a d2)))
        end)
  | PCopy a b =>
      in_tx d (
        bind (sql_insert_ref b (sql_select_sum a d) d) (fun d1 =>
        sql_copy_logs b a d1))
  | PLogRead k =>
      let c := sql_count_logs k d in
      (d, match c with
          | O => RErr                               (* ref.ErrKeyNotFound *)
          | _ => let '(l, ok) := read_logs k c d in RLog l ok
          end)
  end.

Definition cstep_op (fk : filter_kind) (d : db) (o : op) : db * res :=
  interp (cstep fk) d (prog_of o).

Fixpoint crun (fk : filter_kind) (d : db) (ops : list op) : list res :=
  match ops with
  | [] => []
  | o :: ops' => let '(d', r) := cstep_op fk d o in r :: crun fk d' ops'
  end.

Fixpoint creach (fk : filter_kind) (d : db) (ops : list op) : db :=
  match ops with
  | [] => d
  | o :: ops' => creach fk (fst (cstep_op fk d o)) ops'
  end.

(* observations of a concrete state used by the theorems: what Get / LogReader return *)
Definition cget (d : db) (k : name) : option value := sql_select_sum k d.
Definition clog (d : db) (k : name) : list logent * bool :=
  read_logs k (sql_count_logs k d) d.

(** ** tree coders (trusted only by the correspondence) *)
Definition d_meta (t : tree) : meta :=
  mk_meta (d_bytes (d_nth 0 t)) (d_bytes (d_nth 1 t)) (d_bytes (d_nth 2 t)) (d_bytes (d_nth 3 t))
          (d_opt d_bytes (d_nth 4 t)).

Definition d_blist (t : tree) : list bytes := d_list d_bytes t.

Definition d_op (t : tree) : op :=
  let a := d_bytes (d_nth 1 t) in
  let b := d_bytes (d_nth 2 t) in
  match d_nat (d_nth 0 t) with
  | 0%nat => OP (PSet a b)
  | 1%nat => OP (PSetLog a b (d_meta (d_nth 3 t)))
  | 2%nat => OP (PGet a)
  | 3%nat => OP (PDelete a)
  | 4%nat => OP (PFilter (d_blist (d_nth 1 t)) (d_blist (d_nth 2 t)))
  | 5%nat => OP (PFilterKey (d_blist (d_nth 1 t)) (d_blist (d_nth 2 t)))
  | 6%nat => OP (PRename a b)
  | 7%nat => OP (PCopy a b)
  | 8%nat => OP (PLogRead a)
  | 9%nat => ODelRemote a
  | 10%nat => ORenRemote a b
  | 11%nat => ODelTx a
  | 12%nat =>
      match d_nat (d_nth 1 t) with
      | 0%nat => OListRefs head_prefix
      | 1%nat => OListRefs tag_prefix
      | 2%nat => OListRefs (remote_prefix b)
      | _ => OListRefs (tx_prefix b)
      end
  | 13%nat => ORenameRef a b
  | 14%nat => OCopyRef a b
  | 15%nat => OSaveRef a b (d_meta (d_nth 3 t))
  | 16%nat => OListLocal (d_blist (d_nth 1 t)) (d_blist (d_nth 2 t))
  (* cmd/wrgl/remote: `remote rename a b` (generated with a <> b only: the command returns early
     for a = b) is RenameAllRemoteRefs + a config update, `remote remove a` is DeleteAllRemoteRefs
     + a config update; the harness keeps the configuration in step *)
  | 17%nat => ORenRemote a b
  | _ => ODelRemote a
  end.

Definition t_meta_fields (m : meta) : list tree :=
  [t_bytes (m_author m); t_bytes (m_email m); t_bytes (m_action m); t_bytes (m_message m);
   t_opt t_bytes (m_txid m)].

Definition t_ent (e : logent) : tree :=
  Node (t_opt t_bytes (le_old e) :: t_bytes (le_new e) :: t_meta_fields (le_meta e)).

Definition t_kv (kv : name * value) : tree := Node [t_bytes (fst kv); t_bytes (snd kv)].

Definition t_res (r : res) : tree :=
  match r with
  | ROk => Node [Leaf 0]
  | RErr => Node [Leaf 1]
  | RPanic => Node [Leaf 2]
  | RVal v => Node [Leaf 3; t_bytes v]
  | RMap m => Node [Leaf 4; t_list t_kv m]
  | RKeys l => Node [Leaf 5; t_list t_bytes l]
  | RLog l c => Node [Leaf 6; t_list t_ent l; t_bool c]
  end.

Definition run_C15_kind (fk : filter_kind) (c : tree) : tree :=
  match d_nat (d_nth 0 c) with
  | 1%nat =>
      let p := d_bytes (d_nth 1 c) in
      let s := d_bytes (d_nth 2 c) in
      Node [t_bool (like_prefix p s); t_bool (instr_prefix p s)]
  | _ => t_list t_res (crun fk cinit (d_list d_op (d_nth 1 c)))
  end.

(* the correspondence runs the model of the CURRENT code *)
Definition run_C15 (c : tree) : tree := run_C15_kind FInstr c.
