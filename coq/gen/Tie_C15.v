(** C15: the SQL prefix filter is a literal comparison. *)
From Coq Require Import List NArith String Bool.
From W.gen Require Import Extracted TieLib.
Import ListNotations.
Open Scope string_scope.
Example tie_filter_kind : filter_kind = "INSTR".
Proof. vm_compute; reflexivity. Qed.
Example tie_ref_prefixes : ref_prefixes = ["heads/"; "tags/"; "remotes/"; "txs/"] /\ pairwise_not_prefix ref_prefixes = true.
Proof. split; vm_compute; reflexivity. Qed.
