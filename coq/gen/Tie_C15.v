(** C15: the SQL prefix filter is a literal comparison. *)
From Coq Require Import List NArith String Bool.
From W.gen Require Import Extracted TieLib.
From W.model Require Import RefStore RefSql.
Import ListNotations.
Open Scope string_scope.
Example tie_filter_kind : Extracted.filter_kind = "INSTR".
Proof. vm_compute; reflexivity. Qed.
Example tie_ref_prefixes : Extracted.ref_prefixes = ["heads/"; "tags/"; "remotes/"; "txs/"] /\ pairwise_not_prefix Extracted.ref_prefixes = true.
Proof. split; vm_compute; reflexivity. Qed.
(* through the model: the filter kind read from the source is the one C15_refines is proved for,
   and the ref-name prefixes are the model's *)
Example tie_filter_ok : filter_ok (filter_kind_of_string Extracted.filter_kind) = true.
Proof. vm_compute; reflexivity. Qed.
Example tie_model_prefixes : Extracted.ref_prefixes = RefStore.model_ref_prefixes.
Proof. vm_compute; reflexivity. Qed.
