(** Tie (code level), kernels (b) slice.StringSliceEqual, (c) objects.StringSliceIsLess,
    (d) sorter.pkIsDifferent: the function BODIES, re-translated from /repo on every run into
    gen/ExtractedCode.v, compute the functions of model/Sorter.v ([key_eqb],
    [string_slice_is_less], [pk_is_different]) for all inputs on which Go does not panic.
    Used by C19 / C01 (and C02, C03 through the sorter model). *)
From Coq Require Import List ZArith.
From W.lib Require Import Tree Bytes GoLang.
From W.gen Require Import ExtractedCode.
From W.model Require Import Sorter.
From W.proofs Require GoCode_Slices_proofs.
Import ListNotations.
Local Open Scope Z_scope.

Theorem code_StringSliceEqual : forall a b : list bytes,
  exists fuel, run_func fuel go_prog go_StringSliceEqual [v_strs a; v_strs b]
               = FOk [VBool (key_eqb a b)] [].
Proof. exact GoCode_Slices_proofs.go_StringSliceEqual_model. Qed.
Print Assumptions code_StringSliceEqual.

(** the model function is list equality *)
Theorem code_StringSliceEqual_is_eq : forall a b : list bytes, key_eqb a b = true <-> a = b.
Proof. exact GoCode_Slices_proofs.key_eqb_true_iff. Qed.
Print Assumptions code_StringSliceEqual_is_eq.

Theorem code_StringSliceIsLess : forall (pk : list nat) (a b : row),
  GoCode_Slices_proofs.isless_wf pk a b -> Forall (fun u => Z.of_nat u < 2 ^ 32) pk ->
  exists fuel, run_func fuel go_prog go_StringSliceIsLess [v_nats pk; v_strs a; v_strs b]
               = FOk [VBool (string_slice_is_less pk a b)] [].
Proof. exact GoCode_Slices_proofs.go_StringSliceIsLess_model. Qed.
Print Assumptions code_StringSliceIsLess.

Theorem code_pkIsDifferent : forall (pk prev : key) (first : bool),
  length prev = length pk ->
  exists fuel, run_func fuel go_prog go_pkIsDifferent [v_strs pk; v_strs prev; VBool first]
               = let '(r, prev', first') := pk_is_different pk prev first in
                 FOk [VBool r] [v_strs prev'; VBool first'].
Proof. exact GoCode_Slices_proofs.go_pkIsDifferent_model. Qed.
Print Assumptions code_pkIsDifferent.

(** non-vacuity *)
Example code_StringSliceIsLess_runs :
  run_func 20 go_prog go_StringSliceIsLess
           [v_nats [1%nat]; v_strs [[1%N]; [5%N]]; v_strs [[0%N]; [5%N; 0%N]]] = FOk [VBool true] [].
Proof. vm_compute. reflexivity. Qed.
Example code_pkIsDifferent_runs :
  run_func 20 go_prog go_pkIsDifferent [v_strs [[7%N]]; v_strs [[7%N]]; VBool false]
  = FOk [VBool false] [v_strs [[7%N]]; VBool false].
Proof. vm_compute. reflexivity. Qed.
