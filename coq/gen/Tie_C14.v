(** C14: the call order of transaction.Commit / Discard, regenerated from the Go source,
    satisfies the order constraints the proofs in proofs/Txn_proofs.v rely on
    (status read and checked before any write; commit object before its ref; status
    update last; Discard checks the status before deleting staged refs). *)
From Coq Require Import List NArith String Bool.
From W.gen Require Import Extracted TieLib.
From W.model Require Import Txn.
Import ListNotations.
Open Scope string_scope.

Example tie_tx_commit : txn_skel_ok_strict txn_commit_skel = true.
Proof. vm_compute; reflexivity. Qed.
Example tie_tx_discard : txn_discard_skel_ok_strict txn_discard_skel = true.
Proof. vm_compute; reflexivity. Qed.
(* the pre-repair skeletons are rejected by the same checkers *)
Example tie_tx_v0_rejected : txn_skel_ok_strict txn_commit_skel_v0 = false /\ txn_discard_skel_ok_strict txn_discard_skel_v0 = false.
Proof. split; vm_compute; reflexivity. Qed.
(* one logged ref update = one SQL transaction (the atomic step WSetWithLog of the model) *)
Example tie_setwithlog_atomic : setwithlog_shape = "RunInTx".
Proof. vm_compute; reflexivity. Qed.
