(** C14: transaction commit/discard call order. *)
From Coq Require Import List NArith String Bool.
From W.gen Require Import Extracted TieLib.
Import ListNotations.
Open Scope string_scope.
Example tie_tx_commit :
  before "rs.GetTransaction" "objects.SaveCommit" skel_tx_commit
  && before "rs.GetTransactionLogs" "objects.SaveCommit" skel_tx_commit
  && before "objects.SaveCommit" "ref.SaveRef" skel_tx_commit
  && before "ref.SaveRef" "rs.UpdateTransaction" skel_tx_commit = true.
Proof. vm_compute; reflexivity. Qed.
Example tie_tx_discard :
  before "rs.GetTransaction" "ref.DeleteTransactionRefs" skel_tx_discard
  && before "ref.DeleteTransactionRefs" "rs.DeleteTransaction" skel_tx_discard = true.
Proof. vm_compute; reflexivity. Qed.
