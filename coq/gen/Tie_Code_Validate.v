(** Tie (code level), kernel (e): the BODIES of objects.ValidateStrListBytes and
    objects.ValidateBlockBytes, re-translated from /repo on every run into gen/ExtractedCode.v,
    compute [validate_strlist] / [validate_block] of model/DecLists.v on every byte string
    (shorter than 2^62), and never panic.  Used by C17. *)
From Coq Require Import List ZArith.
From W.lib Require Import Tree Bytes GoSlice GoLang.
From W.gen Require Import ExtractedCode.
From W.model Require Import DecLists.
From W.proofs Require GoCode_Validate_proofs.
Import ListNotations.
Local Open Scope Z_scope.

Theorem code_ValidateStrListBytes : forall b : bytes,
  wf_bytes b -> Z.of_nat (length b) < 2 ^ 62 ->
  exists fuel, run_func fuel go_prog go_ValidateStrListBytes [VStr b]
               = match validate_strlist b with
                 | Ok m => FOk [v_nat m; VNil] []
                 | Err _ => FOk [VInt 0; VErr] []
                 | Panic => FPanic
                 end.
Proof. exact GoCode_Validate_proofs.go_ValidateStrListBytes_model. Qed.
Print Assumptions code_ValidateStrListBytes.

Theorem code_ValidateBlockBytes : forall b : bytes,
  wf_bytes b -> Z.of_nat (length b) < 2 ^ 62 ->
  exists fuel, run_func fuel go_prog go_ValidateBlockBytes [VStr b]
               = match validate_block b with
                 | Ok _ => FOk [VNil] []
                 | Err _ => FOk [VErr] []
                 | Panic => FPanic
                 end.
Proof. exact GoCode_Validate_proofs.go_ValidateBlockBytes_model. Qed.
Print Assumptions code_ValidateBlockBytes.

Theorem code_ValidateStrListBytes_no_panic : forall b : bytes,
  wf_bytes b -> Z.of_nat (length b) < 2 ^ 62 ->
  exists fuel rets, run_func fuel go_prog go_ValidateStrListBytes [VStr b] = FOk rets [].
Proof. exact GoCode_Validate_proofs.go_ValidateStrListBytes_no_panic. Qed.
Print Assumptions code_ValidateStrListBytes_no_panic.

Theorem code_ValidateBlockBytes_no_panic : forall b : bytes,
  wf_bytes b -> Z.of_nat (length b) < 2 ^ 62 ->
  exists fuel rets, run_func fuel go_prog go_ValidateBlockBytes [VStr b] = FOk rets [].
Proof. exact GoCode_Validate_proofs.go_ValidateBlockBytes_no_panic. Qed.
Print Assumptions code_ValidateBlockBytes_no_panic.

(** non-vacuity: a block of one row with the cells "a", "" *)
Example code_ValidateBlockBytes_runs :
  run_func 60 go_prog go_ValidateBlockBytes
           [VStr [0;0;0;1; 0;0;0;2; 0;1;97; 0;0]%N] = FOk [VNil] [].
Proof. vm_compute. reflexivity. Qed.
Example code_ValidateBlockBytes_rejects :
  run_func 60 go_prog go_ValidateBlockBytes
           [VStr [0;0;0;1; 0;0;0;2; 0;1;97; 0]%N] = FOk [VErr] [].
Proof. vm_compute. reflexivity. Qed.
