(** C07: receiver gates. *)
From Coq Require Import List NArith String Bool.
From W.gen Require Import Extracted TieLib.
Import ListNotations.
Open Scope string_scope.
Example tie_recv :
  before "objects.ValidateBlockBytes" "objects.SaveCompressedBlock" skel_recv_block
  && before "ingest.IndexTable" "objects.SaveTable" skel_recv_table
  && before "ingest.ProfileTable" "objects.SaveTable" skel_recv_table
  && before "objects.CommitExist" "objects.SaveCommit" skel_recv_commit = true.
Proof. vm_compute; reflexivity. Qed.
