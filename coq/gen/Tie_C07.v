(** C07: receiver gates. *)
From Coq Require Import List NArith String Bool.
From W.gen Require Import Extracted TieLib.
From W.model Require Import TransferSpec.
Import ListNotations.
Open Scope string_scope.
Example tie_recv :
  before "objects.ValidateBlockBytes" "objects.SaveCompressedBlock" skel_recv_block
  && before "ingest.IndexTable" "objects.SaveTable" skel_recv_table
  && before "ingest.ProfileTable" "objects.SaveTable" skel_recv_table
  && before "objects.CommitExist" "objects.SaveCommit" skel_recv_commit = true.
Proof. vm_compute; reflexivity. Qed.
(* the receiver/indexer write-order facts the C07 model and proofs are written for *)
Example tie_recv_skel : recv_skel_ok skel_recv_block skel_recv_table skel_recv_commit && index_skel_ok skel_index_table = true.
Proof. vm_compute; reflexivity. Qed.
