(** C13: write-order skeletons: derived indices before the object that advertises them,
    table before commit, commit before ref, prune deletes commits last, refs after objects. *)
From Coq Require Import List NArith String Bool.
From W.gen Require Import Extracted TieLib.
From W.model Require Import Crash.
Import ListNotations.
Open Scope string_scope.

Example tie_ingest_order :
  before "i.wg.Wait" "i.sortBlocks" skel_ingest
  && before "objects.SaveTableIndex" "objects.SaveTable" skel_ingest
  && before "objects.SaveTableProfile" "objects.SaveTable" skel_ingest
  && before "objects.SaveBlock" "objects.SaveBlockIndex" skel_insert_block = true.
Proof. vm_compute; reflexivity. Qed.

Example tie_recv_order :
  before "ingest.IndexTable" "objects.SaveTable" skel_recv_table
  && before "ingest.ProfileTable" "objects.SaveTable" skel_recv_table
  && before "objects.CommitExist" "objects.SaveCommit" skel_recv_commit
  && before "objects.SaveBlockIndex" "objects.SaveTableIndex" skel_index_table = true.
Proof. vm_compute; reflexivity. Qed.

Example tie_prune_order :
  before "findCommitsToRemove" "pruneTables" skel_prune
  && before "pruneTables" "objects.DeleteBlock" skel_prune
  && before "objects.DeleteBlock" "objects.DeleteCommit" skel_prune
  && before "objects.DeleteBlockIndex" "objects.DeleteCommit" skel_prune
  && mem "objects.DeleteTable" skel_prune_tables = true.
Proof. vm_compute; reflexivity. Qed.

Example tie_fetch_order : before "fetchObjects" "saveFetchedRefs" skel_fetch = true.
Proof. vm_compute; reflexivity. Qed.

Example tie_prune_commit_order : prune_commit_order = "childrenFirst".
Proof. vm_compute; reflexivity. Qed.

(* through the model: the regenerated skeletons satisfy the order predicates that every
   theorem of props/C13.v is parametric in (skels_ok) *)
Example tie_c13_model : skels_ok (mk_skels skel_ingest skel_insert_block skel_recv_table
     skel_index_table skel_recv_commit skel_fetch skel_prune skel_prune_tables prune_commit_order
     skel_cmd_commit skel_cmd_commit_with_table skel_cmd_merge_result skel_cmd_create_merge) = true.
Proof. vm_compute; reflexivity. Qed.
Example tie_setwithlog_atomic : setwithlog_shape = "RunInTx".
Proof. vm_compute; reflexivity. Qed.
