(** Tie (code level), kernel (vi): the BODY of objects.(BlockIndex).Get (struct receiver with
    read-only fields, sort.Search with a closure - inlined as the standard library's halving
    loop -, byte(i) conversions, bytes.Equal), re-translated from /repo on every run, computes
    [get_hashed] of model/DiffHashed.v for every key-hash function h with 128-bit values, when
    Rows[j] is the 16-byte big-endian key hash followed by the 16-byte row sum.  Used by C04.
    Premises: at most 256 rows (so byte(i) = i; objects.BlockSize is 255), sortedOff holds row
    offsets. *)
From Coq Require Import List ZArith NArith.
From W.lib Require Import Tree Bytes GoSort GoLang.
From W.gen Require Import ExtractedCode.
From W.model Require Import Diff DiffHashed.
From W.proofs Require GoCode_BlockIndexGet_proofs.
Import ListNotations.
Local Open Scope Z_scope.

Notation row_val := GoCode_BlockIndexGet_proofs.row_val.
Notation so_bytes := GoCode_BlockIndexGet_proofs.so_bytes.

Theorem code_BlockIndex_Get : forall (h : key -> N) (so : list nat) (b : block) (k : key),
  (length b <= 256)%nat -> length so = length b ->
  Forall (fun o => (o < length b)%nat) so ->
  Forall (fun r => (h (fst r) < 2 ^ 128)%N /\ (snd r < 2 ^ 128)%N) b ->
  (h k < 2 ^ 128)%N ->
  exists fuel, run_func fuel go_prog go_BlockIndex_Get
                        [VStr (so_bytes so); VList (map (row_val h) b); VStr (be 16 (h k))]
               = match get_hashed h so b k with
                 | Some (j, r) => FOk [v_nat j; VStr (be 16 r)] []
                 | None => FOk [VInt 0; VNil] []
                 end.
Proof. exact GoCode_BlockIndexGet_proofs.go_BlockIndex_Get_model. Qed.
Print Assumptions code_BlockIndex_Get.

(** non-vacuity: three rows whose key hashes are 30, 10, 20 (sortedOff = 1,2,0); look up 20 *)
Definition ex_h (k : key) : N := match k with [[x]] => x | _ => 0 end.
Example code_BlockIndex_Get_runs :
  run_func 400 go_prog go_BlockIndex_Get
           [VStr (so_bytes [1; 2; 0]%nat);
            VList (map (row_val ex_h) [([[30%N]], 7%N); ([[10%N]], 8%N); ([[20%N]], 9%N)]);
            VStr (be 16 20)]
  = FOk [v_nat 2; VStr (be 16 9)] [].
Proof. vm_compute. reflexivity. Qed.
