(** C20 has no translator-regenerated premise: its tie is the correspondence harness.
    This file only checks that the generated file is well-formed Coq. *)
From W.gen Require Import Extracted.
