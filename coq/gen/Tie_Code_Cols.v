(** Tie (code level), kernel (v): the BODIES of slice.IndicesToValues,
    slice.CopyValuesFromIndices (dst is in/out) and Sorter.removeCols, re-translated from /repo
    on every run, compute [key_of] / [remove_cols] of model/Sorter.v.  Used by C19 / C01 (sorter
    key projection) and C05 (removeCols: merge column removal).
    Premises are exactly what keeps Go from panicking: key indices inside the row, dst long
    enough, and for removeCols not more removed columns than cells
    (make([]string, 0, len(row)-len(removedCols)) panics on a negative capacity). *)
From Coq Require Import List ZArith NArith.
From W.lib Require Import Tree Bytes GoLang.
From W.gen Require Import ExtractedCode.
From W.model Require Import Sorter.
From W.proofs Require GoCode_Cols_proofs.
Import ListNotations.
Local Open Scope Z_scope.

Theorem code_IndicesToValues : forall (vals : list bytes) (keys : list nat),
  Forall (fun k => (k < length vals)%nat) keys ->
  exists fuel, run_func fuel go_prog go_IndicesToValues [v_strs vals; v_nats keys]
               = FOk [v_strs (key_of keys vals)] [].
Proof. exact GoCode_Cols_proofs.go_IndicesToValues_model. Qed.
Print Assumptions code_IndicesToValues.

Theorem code_CopyValuesFromIndices : forall (src dst : list bytes) (keys : list nat),
  Forall (fun k => (k < length src)%nat) keys -> (length keys <= length dst)%nat ->
  exists fuel, run_func fuel go_prog go_CopyValuesFromIndices [v_strs src; v_strs dst; v_nats keys]
               = FOk [] [v_strs (key_of keys src ++ skipn (length keys) dst)].
Proof. exact GoCode_Cols_proofs.go_CopyValuesFromIndices_model. Qed.
Print Assumptions code_CopyValuesFromIndices.

Theorem code_removeCols : forall (row : list bytes) (rem : list nat),
  (length rem <= length row)%nat -> Z.of_nat (length row) < 2 ^ 62 ->
  exists fuel, run_func fuel go_prog go_Sorter_removeCols [v_strs row; v_nats rem]
               = FOk [v_strs (remove_cols rem row)] [].
Proof. exact GoCode_Cols_proofs.go_removeCols_model. Qed.
Print Assumptions code_removeCols.

Theorem code_removeCols_nil : forall row : list bytes,
  exists fuel, run_func fuel go_prog go_Sorter_removeCols [v_strs row; VNil]
               = FOk [v_strs (remove_cols [] row)] [].
Proof. exact GoCode_Cols_proofs.go_removeCols_nil. Qed.
Print Assumptions code_removeCols_nil.

Example code_removeCols_runs :
  run_func 100 go_prog go_Sorter_removeCols [v_strs [[1]; [2]; [3]]%N; v_nats [1%nat]]
  = FOk [v_strs [[1]; [3]]%N] [].
Proof. vm_compute. reflexivity. Qed.
Example code_CopyValuesFromIndices_runs :
  run_func 100 go_prog go_CopyValuesFromIndices
           [v_strs [[1]; [2]; [3]]%N; v_strs [[9]; [9]; [9]]%N; v_nats [2%nat; 0%nat]]
  = FOk [] [v_strs [[3]; [1]; [9]]%N].
Proof. vm_compute. reflexivity. Qed.
