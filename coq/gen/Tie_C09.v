(** C09/C10: refs are written after objects; merge-base pre-check present. *)
From Coq Require Import List NArith String Bool.
From W.gen Require Import Extracted TieLib.
Import ListNotations.
Open Scope string_scope.
Example tie_fetch_order : before "fetchObjects" "saveFetchedRefs" skel_fetch = true.
Proof. vm_compute; reflexivity. Qed.
