(** C16: lockset of the ingest worker pool, wait-before-read, error channel capacity. *)
From Coq Require Import List NArith String Bool.
From W.gen Require Import Extracted TieLib.
From W.model Require Import Pool PoolTracker.
From W.model Require TrackerRace.
Import ListNotations.
Open Scope string_scope.
Example tie_lockset :
  nonempty pool_accesses && forallb (ends_with ":locked") pool_accesses = true.
Proof. vm_compute; reflexivity. Qed.
Example tie_post :
  before "i.wg.Add" "i.wg.Wait" pool_post_accesses
  && before "i.wg.Wait" "close" pool_post_accesses
  && before "i.wg.Wait" "i.sortBlocks" pool_post_accesses = true.
Proof. vm_compute; reflexivity. Qed.
Example tie_errchan : pool_errchan_capacity = "numWorkers".
Proof. vm_compute; reflexivity. Qed.
(* merger: the error channel has one slot per possible sender (one differ per branch +
   mergeTables + the collector), nobody receives before Error() *)
Example tie_merge_errchan :
  match merge_errchan_extra, merge_errchan_extra_senders with
  | Some k, Some n => N.leb n k && N.eqb n 2
  | _, _ => false
  end = true.
Proof. vm_compute; reflexivity. Qed.
(* through the model: the premise of every positive theorem of props/C16.v *)
Example tie_skeleton_ok :
  skeleton_ok pool_accesses pool_post_accesses sorter_post_accesses pool_errchan_capacity sorter_send_kind = true.
Proof. vm_compute; reflexivity. Qed.
Example tie_merge_errchan_model :
  match merge_errchan_extra, merge_errchan_extra_senders with
  | Some k, Some n => merge_errchan_ok k n
  | _, _ => false
  end = true.
Proof. vm_compute; reflexivity. Qed.
(* the worker touches receiver fields of exactly the TYPES the interleaving model accounts for
   (types, not names: renaming a field is not a change):
   the two lock-protected accumulators, the input channel, the (thread-safe, content-addressed)
   object store, the error channel, the wait group, the mutex, the read-only table header,
   the logger and the (mutex-protected, see fix 7fd...) progress bar.  A new field reachable from
   every worker is shared state the model knows nothing about. *)
Example tie_worker_fields :
  pool_worker_fields = ["*objects.Table"; "<-chan *sorter.Block"; "[]asyncBlock"; "chan error"; "logr.Logger"; "mutex"; "objects.Store"; "pbar.Bar"; "sync.WaitGroup"; "uint32"].
Proof. vm_compute; reflexivity. Qed.
(* the progress tracker delivers ticks with a send that also listens to done *)
Example tie_progress_tick : progress_ok progress_tick_send = true.
Proof. vm_compute; reflexivity. Qed.
(* every access of the progress counters (SingleTracker.current/total) is atomic, or every one
   holds the tracker's mutex: the premise of C16_counters_no_race *)
Example tie_progress_counters : TrackerRace.counters_ok progress_counter_access = true.
Proof. vm_compute; reflexivity. Qed.
