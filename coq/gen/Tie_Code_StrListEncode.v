(** Tie (code level), kernel (ii, encoder): the BODY of the method StrListEncoder.Encode
    (pointer receiver with WRITTEN fields: e.buf is resliced up to its capacity or reallocated,
    binary.BigEndian.PutUint32/PutUint16 and copy into the buffer at an int offset, the two
    panics), re-translated from /repo on every run, computes [encode_strlist] of
    model/CodecStrList.v: the Go panics ("slice length is too long", "cell value ... is too
    long") are exactly the model's [None]; otherwise the returned bytes AND the final e.buf are
    the encoding, whatever e.buf and its spare capacity held before and whether or not
    reuseRecords is set.  Used by C06 (and C01: the cell limit).
    The receiver fields are parameters / in-out values: e.buf, e.reuseRecords, and a companion
    for the bytes of e.buf between len and cap. *)
From Coq Require Import List ZArith NArith.
From W.lib Require Import Tree Bytes GoLang.
From W.gen Require Import ExtractedCode.
From W.model Require Import CodecBase CodecStrList.
From W.proofs Require GoCode_StrListEncode_proofs.
Import ListNotations.
Local Open Scope Z_scope.

Notation cells_len := GoCode_StrListEncode_proofs.cells_len.

Theorem code_StrListEncoder_Encode :
  forall (buf0 spare0 : bytes) (reuse : bool) (sl : list bytes),
  Z.of_nat (length sl) < 2 ^ 62 -> Z.of_nat (cells_len sl) < 2 ^ 62 ->
  exists fuel,
    match encode_strlist sl with
    | Some b => exists sp,
        run_func fuel go_prog go_StrListEncoder_Encode [VStr buf0; VBool reuse; VStr spare0; v_strs sl]
        = FOk [VStr b] [VStr b; VStr sp]
    | None =>
        run_func fuel go_prog go_StrListEncoder_Encode [VStr buf0; VBool reuse; VStr spare0; v_strs sl]
        = FPanic
    end.
Proof. exact GoCode_StrListEncode_proofs.go_Encode_model. Qed.
Print Assumptions code_StrListEncoder_Encode.

(** non-vacuity: a stale 3-byte buffer with 20 bytes of spare capacity is resliced, a buffer
    without capacity is reallocated; both give the encoding of ("a", "") *)
Example code_Encode_runs_reslice :
  run_func 300 go_prog go_StrListEncoder_Encode
           [VStr [9;9;9]%N; VBool true; VStr (repeat 7%N 20); v_strs [[97]; []]%N]
  = FOk [VStr [0;0;0;2; 0;1;97; 0;0]%N] [VStr [0;0;0;2; 0;1;97; 0;0]%N; VStr (repeat 7%N 14)].
Proof. vm_compute. reflexivity. Qed.
Example code_Encode_runs_alloc :
  run_func 300 go_prog go_StrListEncoder_Encode
           [VStr []; VBool false; VStr []; v_strs [[97]; []]%N]
  = FOk [VStr [0;0;0;2; 0;1;97; 0;0]%N] [VStr [0;0;0;2; 0;1;97; 0;0]%N; VStr []].
Proof. vm_compute. reflexivity. Qed.
