(** C17: decoders read with full reads (shared with C18) and the receiver's table
    write order keeps a rejected table unreferenced. *)
From Coq Require Import List NArith String Bool.
From W.gen Require Import Extracted TieLib.
From W.gen Require Export Tie_C18.
Import ListNotations.
Open Scope string_scope.
Example tie_recv_table_order :
  before "objects.ReadTableFrom" "ingest.IndexTable" skel_recv_table
  && before "ingest.IndexTable" "objects.SaveTable" skel_recv_table
  && before "ingest.ProfileTable" "objects.SaveTable" skel_recv_table
  && before "objects.ValidateBlockBytes" "objects.SaveCompressedBlock" skel_recv_block
  && before "objects.CommitExist" "objects.SaveCommit" skel_recv_commit = true.
Proof. vm_compute; reflexivity. Qed.
