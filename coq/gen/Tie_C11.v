From Coq Require Import List NArith String Bool.
From W.gen Require Import Extracted TieLib.
Open Scope string_scope.
Example tie_seek_shape : seek_common_ancestor_shape = "precheck-first".
Proof. vm_compute; reflexivity. Qed.
