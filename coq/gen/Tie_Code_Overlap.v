(** Tie (code level), kernel (f): the BODY of diff.findOverlappingBlocks (two labelled loops
    with break/continue), re-translated from /repo on every run into gen/ExtractedCode.v,
    computes [find_overlapping] of model/Diff.v on all block indices whose keys have one common
    width (the primary-key column count), for every off1 < |idx1| and prevEnd <= |idx2|.
    Used by C04. *)
From Coq Require Import List ZArith.
From W.lib Require Import Tree Bytes GoLang.
From W.gen Require Import ExtractedCode.
From W.model Require Import Diff.
From W.proofs Require GoCode_Overlap_proofs.
Import ListNotations.
Local Open Scope Z_scope.

Theorem code_findOverlappingBlocks : forall (idx1 idx2 : list (list bytes)) (off1 prevEnd w : nat),
  Forall (fun k => length k = w) idx1 -> Forall (fun k => length k = w) idx2 ->
  (off1 < length idx1)%nat -> (prevEnd <= length idx2)%nat ->
  Z.of_nat (length idx1) < 2 ^ 62 -> Z.of_nat (length idx2) < 2 ^ 62 ->
  exists fuel, run_func fuel go_prog go_findOverlappingBlocks
                        [v_strss idx1; v_strss idx2; v_nat off1; v_nat prevEnd]
               = FOk [VInt (fst (find_overlapping idx1 idx2 off1 prevEnd));
                      VInt (snd (find_overlapping idx1 idx2 off1 prevEnd))] [].
Proof. exact GoCode_Overlap_proofs.go_findOverlappingBlocks_model. Qed.
Print Assumptions code_findOverlappingBlocks.

(** non-vacuity *)
Example code_findOverlappingBlocks_runs :
  run_func 200 go_prog go_findOverlappingBlocks
           [v_strss [[[1%N]]; [[5%N]]]; v_strss [[[0%N]]; [[2%N]]; [[4%N]]; [[6%N]]]; v_nat 0; v_nat 0]
  = FOk [VInt 0; VInt 3] [].
Proof. vm_compute. reflexivity. Qed.
Example code_findOverlappingBlocks_runs_model :
  find_overlapping [[[1%N]]; [[5%N]]] [[[0%N]]; [[2%N]]; [[4%N]]; [[6%N]]] 0 0 = (0, 3).
Proof. vm_compute. reflexivity. Qed.
