(** Tie (code level), kernel (vii): the BODY of index.addToFanoutTable (a map[byte]uint32 of
    counts, then `for b, u := range m` in Go's unspecified map order, writes through a
    *[256]uint32), re-translated from /repo on every run, computes [add_to_fanout] of
    model/HashSet.v - for EVERY iteration order: the order is answered by the program's oracle
    ("map.order"), which may return any permutation of the keys ([order_ok]).  Used by C20.
    Premises: 256 fanout entries, 128-bit hashes, no uint32 overflow of the counters. *)
From Coq Require Import List ZArith NArith String.
From W.lib Require Import Tree Bytes GoLang.
From W.gen Require Import ExtractedCode.
From W.model Require Import HashSet.
From W.proofs Require GoCode_Fanout_proofs.
Import ListNotations.
Local Open Scope Z_scope.

Notation order_ok := GoCode_Fanout_proofs.order_ok.

Theorem code_addToFanoutTable :
  forall (orc : string -> list value -> option (list value)) (fan : list nat) (bs : list hash),
  order_ok orc ->
  length fan = 256%nat -> Forall (fun h => (h < 2 ^ 128)%N) bs ->
  (forall k, (k < 256)%nat -> Z.of_nat (nth k fan O) + Z.of_nat (length bs) < 2 ^ 32) ->
  exists fuel, run_func fuel (with_oracle go_prog orc) go_addToFanoutTable
                        [v_nats fan; v_strs (map (be 16) bs)]
               = FOk [] [v_nats (add_to_fanout fan bs)].
Proof. exact GoCode_Fanout_proofs.go_addToFanoutTable_model. Qed.
Print Assumptions code_addToFanoutTable.

(** non-vacuity: two oracles (identity and reversal) give the same table on hashes with first
    bytes 2, 0, 2 (shown on the first four entries of a 256-entry table of zeros) *)
Definition orc_id (name : string) (args : list value) : option (list value) := Some args.
Definition orc_rev (name : string) (args : list value) : option (list value) :=
  match args with [VList l] => Some [VList (rev l)] | _ => None end.
Definition ex_hashes : list bytes := [be 16 (2 * 2 ^ 120); be 16 5; be 16 (2 * 2 ^ 120 + 7)]%N.
Definition first4 (r : fres) : list value :=
  match r with FOk _ [VList l] => firstn 4 l | _ => [] end.
Example code_addToFanoutTable_runs_id :
  first4 (run_func 4000 (with_oracle go_prog orc_id) go_addToFanoutTable
                   [v_nats (repeat O 256); v_strs ex_hashes]) = [VInt 1; VInt 1; VInt 3; VInt 3].
Proof. vm_compute. reflexivity. Qed.
Example code_addToFanoutTable_runs_rev :
  first4 (run_func 4000 (with_oracle go_prog orc_rev) go_addToFanoutTable
                   [v_nats (repeat O 256); v_strs ex_hashes]) = [VInt 1; VInt 1; VInt 3; VInt 3].
Proof. vm_compute. reflexivity. Qed.
