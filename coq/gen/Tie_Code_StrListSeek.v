(** Tie (code level), kernel (iv): the BODIES of the methods StrList.seekColumnOffset,
    StrList.seekColumn and StrList.LessThan (methods on the []byte type StrList; LessThan calls
    seekColumn calls seekColumnOffset; bytes.Compare), re-translated from /repo on every run:
    on the ENCODINGS of two rows ([encode_strlist] of model/CodecStrList.v) seekColumn returns
    the cell and LessThan computes [strlist_less_than] of model/Sorter.v on the decoded rows.
    Used by C19 / C02 (external merge of sorted chunks compares encoded rows) and C06.
    Premises: the compared columns exist in both rows (Go panics "column out of bound"
    otherwise), fewer than 2^32 cells. *)
From Coq Require Import List ZArith NArith.
From W.lib Require Import Tree Bytes GoLang.
From W.gen Require Import ExtractedCode.
From W.model Require Import CodecBase CodecStrList Sorter.
From W.proofs Require GoCode_StrListSeek_proofs.
Import ListNotations.
Local Open Scope Z_scope.

Theorem code_StrList_seekColumn : forall (r : list bytes) (e : bytes) (u : nat),
  encode_strlist r = Some e -> (u < length r)%nat ->
  Z.of_nat (length r) < 2 ^ 32 -> Z.of_nat (length e) < 2 ^ 62 ->
  exists fuel, run_func fuel go_prog go_StrList_seekColumn [VStr e; v_nat u] = FOk [VStr (nth u r [])] [].
Proof. exact GoCode_StrListSeek_proofs.go_seekColumn_encoded. Qed.
Print Assumptions code_StrList_seekColumn.

Theorem code_StrList_LessThan : forall (ra rb : list bytes) (ea eb : bytes) (pk : list nat),
  encode_strlist ra = Some ea -> encode_strlist rb = Some eb ->
  Forall (fun u => (u < length ra)%nat /\ (u < length rb)%nat) pk ->
  (pk = [] -> (length ra <= length rb)%nat) ->
  Z.of_nat (length ra) < 2 ^ 32 -> Z.of_nat (length rb) < 2 ^ 32 ->
  Z.of_nat (length ea) < 2 ^ 62 -> Z.of_nat (length eb) < 2 ^ 62 ->
  exists fuel, run_func fuel go_prog go_StrList_LessThan [VStr ea; v_nats pk; VStr eb]
               = FOk [VBool (strlist_less_than pk ra rb)] [].
Proof. exact GoCode_StrListSeek_proofs.go_LessThan_encoded. Qed.
Print Assumptions code_StrList_LessThan.

(** non-vacuity: rows ("b","x") and ("b","y") compared on column 1, and on all columns *)
Example code_StrList_LessThan_runs :
  run_func 400 go_prog go_StrList_LessThan
           [VStr [0;0;0;2; 0;1;98; 0;1;120]%N; v_nats [1%nat]; VStr [0;0;0;2; 0;1;98; 0;1;121]%N]
  = FOk [VBool true] [].
Proof. vm_compute. reflexivity. Qed.
Example code_StrList_LessThan_runs_all :
  run_func 400 go_prog go_StrList_LessThan
           [VStr [0;0;0;2; 0;1;98; 0;1;121]%N; v_nats []; VStr [0;0;0;2; 0;1;98; 0;1;120]%N]
  = FOk [VBool false] [].
Proof. vm_compute. reflexivity. Qed.
