(** Tie (code level), kernel (i): the BODY of prune.childrenFirst (three string-keyed maps, a
    FIFO slice queue, objects.GetCommit as the program's oracle), re-translated from /repo on
    every run into gen/ExtractedCode.v, computes
      - [children_first] of model/Prune.v  (C12), and
      - [children_first] of model/Crash.v  (C13),
    for every duplicate-free list of commits to remove, every injective encoding of the models'
    commit ids as byte strings and every store (oracle) that answers GetCommit as the model's
    commit map does.  Corollary: the two models, written independently, agree.
    The size premise (twice the number of to-remove parent edges below 2^62) keeps the Go
    [int] counters from wrapping. *)
From Coq Require Import List ZArith NArith.
From W.lib Require Import Tree Bytes GoLang.
From W.gen Require Import ExtractedCode.
From W.model Require PruneRepo Prune CrashRepo Crash.
From W.proofs Require GoCode_ChildrenFirst_proofs GoCode_ChildrenFirstPrune_proofs
     GoCode_ChildrenFirstCrash_proofs GoCode_ChildrenFirstAgree_proofs.
Import ListNotations.
Local Open Scope Z_scope.

Notation cf_oracle := GoCode_ChildrenFirst_proofs.cf_oracle.

Theorem code_childrenFirst_prune :
  forall (cm : list (N * PruneRepo.commit)) (cs : list N), NoDup cs ->
  forall (enc : N -> bytes) (par : bytes -> option (list bytes)) (out : list N),
  (forall a b, enc a = enc b -> a = b) ->
  (forall c, In c cs ->
     par (enc c) = option_map (fun co => map enc (PruneRepo.c_parents co)) (PruneRepo.get cm c)) ->
  Prune.children_first cm cs = Some out ->
  2 * Z.of_nat (length (flat_map (Prune.cf_parents cm cs) cs)) < 2 ^ 62 ->
  exists fuel, run_func fuel (with_oracle go_prog (cf_oracle par)) go_childrenFirst
                        [VNil; v_strs (map enc cs)]
               = FOk [v_strs (map enc out)] [].
Proof. exact GoCode_ChildrenFirstPrune_proofs.go_childrenFirst_prune. Qed.
Print Assumptions code_childrenFirst_prune.

Theorem code_childrenFirst_crash :
  forall (l : list CrashRepo.cid), NoDup l ->
  forall (enc : CrashRepo.cid -> bytes) (par : bytes -> option (list bytes)),
  (forall a b, enc a = enc b -> a = b) ->
  (forall c, In c l -> par (enc c) = Some (map enc (CrashRepo.c_parents c))) ->
  2 * Z.of_nat (length (flat_map (Crash.kparents l) l)) < 2 ^ 62 ->
  exists fuel, run_func fuel (with_oracle go_prog (cf_oracle par)) go_childrenFirst
                        [VNil; v_strs (map enc l)]
               = FOk [v_strs (map enc (Crash.children_first l))] [].
Proof. exact GoCode_ChildrenFirstCrash_proofs.go_childrenFirst_crash. Qed.
Print Assumptions code_childrenFirst_crash.

Theorem code_childrenFirst_models_agree :
  forall (l : list CrashRepo.cid) (num : CrashRepo.cid -> N) (cm : list (N * PruneRepo.commit)),
  NoDup l -> (forall a b, num a = num b -> a = b) ->
  (forall c, In c l ->
     exists t, PruneRepo.get cm (num c) = Some (PruneRepo.mkCommit t (map num (CrashRepo.c_parents c)))) ->
  2 * Z.of_nat (length (flat_map (Prune.cf_parents cm (map num l)) (map num l))) < 2 ^ 62 ->
  2 * Z.of_nat (length (flat_map (Crash.kparents l) l)) < 2 ^ 62 ->
  Prune.children_first cm (map num l) = Some (map num (Crash.children_first l)).
Proof. exact GoCode_ChildrenFirstAgree_proofs.children_first_models_agree. Qed.
Print Assumptions code_childrenFirst_models_agree.

(** non-vacuity: commits 1 <- 2 <- 3 (3 is the newest; parents point left), to remove [1;2;3]
    in key order: the code returns 3, 2, 1 *)
Definition ex_par (b : bytes) : option (list bytes) :=
  match b with
  | [1%N] => Some []
  | [2%N] => Some [[1%N]]
  | [3%N] => Some [[2%N]; [9%N]]
  | _ => None
  end.
Example code_childrenFirst_runs :
  run_func 200 (with_oracle go_prog (cf_oracle ex_par)) go_childrenFirst
           [VNil; v_strs [[1%N]; [2%N]; [3%N]]] = FOk [v_strs [[3%N]; [2%N]; [1%N]]] [].
Proof. vm_compute. reflexivity. Qed.
