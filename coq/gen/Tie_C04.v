(** C04 relies on the same regenerated constants as C01 (block size, string-list limits). *)
From W.gen Require Export Tie_C01.
