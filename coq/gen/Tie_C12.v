(** C12: prune slot lookups are checked, commits are deleted last. *)
From Coq Require Import List NArith String Bool.
From W.gen Require Import Extracted TieLib.
From W.model Require Import Prune.
Import ListNotations.
Open Scope string_scope.
Example tie_prune_guards : nonempty prune_search_guards && all_eq "checked" prune_search_guards = true /\ List.length prune_search_guards = 4.
Proof. split; vm_compute; reflexivity. Qed.
Example tie_prune_order :
  before "findCommitsToRemove" "pruneTables" skel_prune
  && before "pruneTables" "objects.DeleteBlock" skel_prune
  && before "objects.DeleteBlock" "objects.DeleteCommit" skel_prune
  && before "objects.DeleteBlockIndex" "objects.DeleteCommit" skel_prune = true.
Proof. vm_compute; reflexivity. Qed.
Example tie_prune_commit_order : prune_commit_order = "childrenFirst".
Proof. vm_compute; reflexivity. Qed.
(* the delete skeleton the model and proofs of C12 are written for *)
Example tie_prune_skel : prune_skel_ok prune_delete_skel = true.
Proof. vm_compute; reflexivity. Qed.
