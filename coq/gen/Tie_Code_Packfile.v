(** Tie (code level), kernel (h): the BODY of packfile.encodeObjTypeAndLen (bits.Len64, Go's
    truncated / and %, uint8 shifts and masks, writes into the buffer, the final [&= 127]),
    re-translated from /repo on every run into gen/ExtractedCode.v, computes [encode_len] of
    model/CodecPackfile.v for every object type, every u < 2^64 and EVERY initial content of the
    buffer returned by buf.Buffer(numBytes).  Used by C06. *)
From Coq Require Import List ZArith NArith.
From W.lib Require Import Tree Bytes GoLang.
From W.gen Require Import ExtractedCode.
From W.model Require Import CodecPackfile.
From W.proofs Require GoCode_Packfile_proofs.
Import ListNotations.
Local Open Scope Z_scope.

Theorem code_encodeObjTypeAndLen : forall (garbage : bytes) (ty u : N),
  (10 <= length garbage)%nat -> (u < 2 ^ 64)%N -> Z.of_N ty < 2 ^ 63 ->
  exists fuel, run_func fuel go_prog go_encodeObjTypeAndLen
                        [VStr garbage; VInt (Z.of_N ty); VInt (Z.of_N u)]
               = FOk [VStr (encode_len ty u)] [].
Proof. exact GoCode_Packfile_proofs.go_encodeObjTypeAndLen_model. Qed.
Print Assumptions code_encodeObjTypeAndLen.

(** non-vacuity: type 3, length 300 *)
Example code_encodeObjTypeAndLen_runs :
  run_func 100 go_prog go_encodeObjTypeAndLen
           [VStr [9;9;9;9;9;9;9;9;9;9]%N; VInt 3; VInt 300] = FOk [VStr (encode_len 3 300)] [].
Proof. vm_compute. reflexivity. Qed.
