(** Tie obligations shared by C01 / C02 / C03 / C04 / C19: the constants the sorter,
    ingest and diff models assume, re-read from the Go source on every run. *)
From Coq Require Import List NArith String Bool.
From W.gen Require Import Extracted TieLib.
Import ListNotations.
Open Scope string_scope.

Definition bs_ok : bool :=
  match block_size with
  | Some bs =>
      (N.ltb 0 bs && N.leb bs 255)                       (* row offsets inside a block are uint8 *)
      && nonempty blocks_count_divisors && all_eq (N_to_string bs) blocks_count_divisors
      && nonempty sorter_block_cut && all_eq (N_to_string bs) sorter_block_cut
      && nonempty row_addr_uses && forallb (ends_with ":BlockSize") row_addr_uses
  | None => false
  end.
(* the models are written for 255 rows per block *)
Example tie_block_size : block_size = Some 255%N /\ bs_ok = true.
Proof. split; vm_compute; reflexivity. Qed.

(* string list: offsets are not narrower than the largest encodable row; cells above the
   16-bit limit are refused before encoding; ingest turns that into an error. *)
Example tie_strlist :
  strlist_encode_offset_type = "int" /\ strlist_decode_offset_type = "int" /\
  strlist_cell_limit = Some 65535%N /\
  addrow_cell_limit = Some 65535%N /\ addrow_guard_action = "error" /\
  sortfile_addrow = ["s.AddRow"; "checked"].
Proof. repeat split; vm_compute; reflexivity. Qed.

(* saved blocks are put back in offset order by a full sort before the table is assembled *)
Example tie_sortblocks : sortblocks_shape = "sort-by-offset".
Proof. vm_compute; reflexivity. Qed.
