(** Tie (code level), kernel (iii): the BODY of objects.CombineRowBytesIntoBlock
    (make, binary.BigEndian.PutUint32, copy into the buffer at a running offset, panic above
    2^32 rows), re-translated from /repo on every run, computes [encode_block] of
    model/CodecStrList.v when its argument is the list of [encode_strlist] encodings of the
    rows; the Go panic is the model's [None].  Used by C06. *)
From Coq Require Import List ZArith NArith.
From W.lib Require Import Tree Bytes GoLang.
From W.gen Require Import ExtractedCode.
From W.model Require Import CodecBase CodecStrList.
From W.proofs Require GoCode_Block_proofs.
Import ListNotations.
Local Open Scope Z_scope.

Theorem code_CombineRowBytesIntoBlock : forall (rows : list (list bytes)) (brs : list bytes),
  map encode_strlist rows = map Some brs ->
  Z.of_nat (length brs) < 2 ^ 62 -> Z.of_nat (length (concat brs)) < 2 ^ 62 ->
  exists fuel, run_func fuel go_prog go_CombineRowBytesIntoBlock [v_strs brs]
               = match encode_block rows with Some b => FOk [VStr b] [] | None => FPanic end.
Proof. exact GoCode_Block_proofs.go_CombineRowBytesIntoBlock_model. Qed.
Print Assumptions code_CombineRowBytesIntoBlock.

(** non-vacuity: two rows, ("a") and ("", "bc") *)
Example code_CombineRowBytesIntoBlock_runs :
  run_func 100 go_prog go_CombineRowBytesIntoBlock
           [v_strs [[0;0;0;1; 0;1;97]; [0;0;0;2; 0;0; 0;2;98;99]]%N]
  = FOk [VStr [0;0;0;2; 0;0;0;1; 0;1;97; 0;0;0;2; 0;0; 0;2;98;99]%N] [].
Proof. vm_compute. reflexivity. Qed.
Example code_CombineRowBytesIntoBlock_model_runs :
  encode_block [[[97]]; [[]; [98; 99]]]%N = Some [0;0;0;2; 0;0;0;1; 0;1;97; 0;0;0;2; 0;0; 0;2;98;99]%N.
Proof. vm_compute. reflexivity. Qed.
