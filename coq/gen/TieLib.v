(** Helpers for the Tie_Cxx.v obligations over the translator-regenerated gen/Extracted.v. *)
From Coq Require Import List NArith String Bool Ascii.
Import ListNotations.
Open Scope string_scope.

Fixpoint index_of (s : string) (l : list string) : option nat :=
  match l with
  | [] => None
  | x :: l' => if String.eqb x s then Some 0 else option_map S (index_of s l')
  end.

(* first occurrence of a strictly before first occurrence of b; both must occur *)
Definition before (a b : string) (l : list string) : bool :=
  match index_of a l, index_of b l with
  | Some i, Some j => Nat.ltb i j
  | _, _ => false
  end.

Definition mem (s : string) (l : list string) : bool :=
  match index_of s l with Some _ => true | None => false end.

Definition all_eq (s : string) (l : list string) : bool := forallb (String.eqb s) l.
Definition nonempty {A} (l : list A) : bool := match l with [] => false | _ => true end.

Fixpoint N_to_digits (fuel : nat) (n : N) (acc : string) : string :=
  match fuel with
  | O => acc
  | S f =>
      let d := N.modulo n 10 in
      let c := ascii_of_N (48 + d) in
      let acc' := String c acc in
      if N.eqb (N.div n 10) 0 then acc' else N_to_digits f (N.div n 10) acc'
  end.
Definition N_to_string (n : N) : string := N_to_digits 25 n "".

Fixpoint is_prefix_s (p s : string) : bool :=
  match p, s with
  | EmptyString, _ => true
  | String _ _, EmptyString => false
  | String a p', String b s' => Ascii.eqb a b && is_prefix_s p' s'
  end.

(* no element of l is a prefix of another (distinct positions) *)
Fixpoint pairwise_not_prefix (l : list string) : bool :=
  match l with
  | [] => true
  | x :: l' => forallb (fun y => negb (is_prefix_s x y) && negb (is_prefix_s y x)) l' && pairwise_not_prefix l'
  end.

Definition ends_with (suffix s : string) : bool :=
  let n := String.length s in let k := String.length suffix in
  Nat.leb k n && String.eqb (substring (n - k) k s) suffix.
