(** C06: layouts the codec models assume. *)
From Coq Require Import List NArith String Bool.
From W.gen Require Import Extracted TieLib.
Import ListNotations.
Open Scope string_scope.

Example tie_labels :
  commit_write_labels = commit_read_labels /\
  commit_write_labels = ["table"; "authorName"; "authorEmail"; "time"; "message"; "parent"] /\
  table_write_labels = table_read_labels /\ table_write_labels = ["columns"; "pk"; "rows"].
Proof. repeat split; vm_compute; reflexivity. Qed.

Example tie_prefixes :
  obj_prefixes = ["blk/"; "tbl/"; "blkidx/"; "tblidx/"; "com/"; "tblsum/"] /\
  pairwise_not_prefix obj_prefixes = true.
Proof. split; vm_compute; reflexivity. Qed.

Example tie_limits :
  strlist_cell_limit = Some 65535%N /\ strlist_encode_offset_type = "int" /\ strlist_decode_offset_type = "int" /\
  objline_string_limit = Some 65535%N /\ objline_string_guard_action = "error".
Proof. repeat split; vm_compute; reflexivity. Qed.

Example tie_packfile : pack_magic = "PACK" /\ pack_version = Some 1%N /\ pack_header_bits = "Len64".
Proof. repeat split; vm_compute; reflexivity. Qed.
