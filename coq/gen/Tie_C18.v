(** C18: every fixed-size read of every decoder entry point is a full read
    (io.ReadFull / io.ReadAtLeast / io.CopyN), never a single Read call: the kind table
    regenerated from the Go source satisfies [Reader.all_full], the premise under which
    props/C18.v is stated ([C18_code_all_full] / [C18_every_decoder]). *)
From Coq Require Import List NArith String Bool.
From W.gen Require Import Extracted TieLib.
From W.lib Require Import Reader.
Import ListNotations.
Open Scope string_scope.

Fixpoint assoc_s (nm : string) (l : list (string * string)) : option string :=
  match l with
  | [] => None
  | (a, b) :: l' => if String.eqb a nm then Some b else assoc_s nm l'
  end.
(* anything that is not literally "Full" - including a site the translator did not find - is Single *)
Definition extracted_read_kind (nm : string) : read_kind :=
  match assoc_s nm read_site_kinds with
  | Some k => if String.eqb k "Full" then Full else Single
  | None => Single
  end.
Definition is_full (k : read_kind) : bool := match k with Full => true | Single => false end.

Lemma tie_all_full_b : forallb (fun nm => is_full (extracted_read_kind nm)) sites = true.
Proof. vm_compute; reflexivity. Qed.

Theorem tie_all_full : all_full extracted_read_kind.
Proof.
  unfold all_full. apply Forall_forall. intros nm Hin.
  pose proof (proj1 (forallb_forall _ _) tie_all_full_b nm Hin) as H.
  cbv beta in H. destruct (extracted_read_kind nm); [cbn in H; discriminate H | reflexivity].
Qed.

Definition site_full (s : string * list string) : bool :=
  nonempty (snd s) && all_eq "Full" (snd s).
Example tie_read_kinds : forallb site_full read_sites = true /\ List.length read_sites = 15.
Proof. split; vm_compute; reflexivity. Qed.
