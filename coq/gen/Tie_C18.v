(** C18: every fixed-size read of every decoder entry point is a full read
    (io.ReadFull / io.CopyN), never a single Read call. *)
From Coq Require Import List NArith String Bool.
From W.gen Require Import Extracted TieLib.
Import ListNotations.
Open Scope string_scope.

Definition site_full (s : string * list string) : bool :=
  nonempty (snd s) && all_eq "Full" (snd s).
Example tie_read_kinds : forallb site_full read_sites = true /\ List.length read_sites = 15.
Proof. split; vm_compute; reflexivity. Qed.
