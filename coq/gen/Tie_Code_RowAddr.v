(** Tie (code level), kernel (a): the BODY of diff.RowToBlockAndOffset, re-translated from
    /repo on every run into gen/ExtractedCode.v [go_RowToBlockAndOffset], computes the models'
    [row_to_block_and_offset] for every uint32 row.  Used by C03 (Ingest model) and C04 (Diff
    model, block size 255 = Extracted.block_size, see Tie_C01).  An edit of the Go function
    that changes what it computes makes proofs/GoCode_RowAddr_proofs.v fail to compile. *)
From Coq Require Import List ZArith.
From W.lib Require Import Tree Bytes GoLang.
From W.gen Require Import ExtractedCode.
From W.model Require Sorter Ingest Diff.
From W.proofs Require GoCode_RowAddr_proofs.
Import ListNotations.
Local Open Scope Z_scope.

Theorem code_RowToBlockAndOffset_ingest : forall row : nat,
  Z.of_nat row < 2 ^ 32 ->
  exists fuel, run_func fuel go_prog go_RowToBlockAndOffset [v_nat row]
               = FOk [v_nat (fst (Ingest.row_to_block_and_offset row));
                      v_nat (snd (Ingest.row_to_block_and_offset row))] [].
Proof. exact GoCode_RowAddr_proofs.go_RowToBlockAndOffset_model_ingest. Qed.
Print Assumptions code_RowToBlockAndOffset_ingest.

Theorem code_RowToBlockAndOffset_diff : forall row : nat,
  Z.of_nat row < 2 ^ 32 ->
  exists fuel, run_func fuel go_prog go_RowToBlockAndOffset [v_nat row]
               = FOk [v_nat (fst (Diff.row_to_block_and_offset 255 row));
                      v_nat (snd (Diff.row_to_block_and_offset 255 row))] [].
Proof. exact GoCode_RowAddr_proofs.go_RowToBlockAndOffset_model_diff. Qed.
Print Assumptions code_RowToBlockAndOffset_diff.

(** non-vacuity: the translated code really runs (row 511 = block 2, offset 1) *)
Example code_RowToBlockAndOffset_runs :
  run_func 10 go_prog go_RowToBlockAndOffset [v_nat 511] = FOk [VInt 2; VInt 1] [].
Proof. vm_compute. reflexivity. Qed.
