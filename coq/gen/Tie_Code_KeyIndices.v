(** Tie (code level), kernel (g): the BODY of slice.KeyIndices (nested range loops, a
    map[int]struct{} used as a set, inner [continue]), re-translated from /repo on every run
    into gen/ExtractedCode.v, computes [key_indices] of model/Ingest.v for all column / key
    name lists (fewer than 2^32 columns).  Used by C01 (and C03 through ingest). *)
From Coq Require Import List ZArith.
From W.lib Require Import Tree Bytes GoLang.
From W.gen Require Import ExtractedCode.
From W.model Require Import Ingest.
From W.proofs Require GoCode_KeyIndices_proofs.
Import ListNotations.
Local Open Scope Z_scope.

Theorem code_KeyIndices : forall cols names : list bytes,
  Z.of_nat (length cols) < 2 ^ 32 ->
  exists fuel, run_func fuel go_prog go_KeyIndices [v_strs cols; v_strs names]
               = match key_indices cols names with
                 | Some l => FOk [v_nats l; VNil] []
                 | None => FOk [VNil; VErr] []
                 end.
Proof. exact GoCode_KeyIndices_proofs.go_KeyIndices_model. Qed.
Print Assumptions code_KeyIndices.

(** non-vacuity: columns a,b,a with key a gives both a-columns; key a,a is refused *)
Example code_KeyIndices_runs :
  run_func 100 go_prog go_KeyIndices [v_strs [[97]; [98]; [97]]%N; v_strs [[97]]%N]
  = FOk [v_nats [0; 2]%nat; VNil] [].
Proof. vm_compute. reflexivity. Qed.
Example code_KeyIndices_refuses :
  run_func 100 go_prog go_KeyIndices [v_strs [[97]; [98]]%N; v_strs [[97]; [97]]%N] = FOk [VNil; VErr] [].
Proof. vm_compute. reflexivity. Qed.
