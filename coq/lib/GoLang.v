(** GoLang: a small deeply embedded imperative language, the target of
    /verif/translator/goast.go.  For a whitelist of small pure Go functions the translator
    converts the go/ast BODY of the function into a term of type [func] (file
    gen/ExtractedCode.v, regenerated on every run); gen/Tie_Code.v then proves, for all
    inputs, that running that term computes the same function as the hand-written model.

    Definitions only.  Lemmas about the interpreter are in proofs/GoLang_proofs.v.

    Values.  All Go integer types are [VInt z] with z in the range of the type; the translator
    (which infers the static type of every arithmetic expression) wraps the result of every
    [+ - *], signed [/] and of every narrowing conversion in an explicit [EWrap k], so the
    interpreter's arithmetic is on Z and overflow behaviour is still Go's.  [string] and
    [[]byte] are [VStr] (a list of bytes); string comparison is lib/Bytes.v [bcmp] (Go's
    byte-wise order).  Other slices are [VList].  Slices are VALUES here: there is no
    aliasing.  The translator therefore accepts writes through a slice/pointer parameter
    ([copy(dst, ..)], [*p = ..], [a[i] = ..]) only by turning the parameter into an in/out
    variable whose final value is reported in [FOk _ outs] ("the caller sees this afterwards");
    theorems about such functions assume the arguments do not overlap in memory.
    Slice expressions assume len = cap (only [a[i:]], whose panic condition does not
    depend on cap, occurs in the translated kernels).

    Variables are numbered by the translator in order of declaration (parameters first, every
    [:=] that opens a new Go scope entry gets a fresh number, so shadowing is resolved by the
    translator and the environment is flat).  Loops are numbered as well; [break]/[continue]
    carry the number of the loop they leave (a label or the innermost loop), so neither
    variable names nor label names occur in the translated term.

    Constructs.  Expressions: variables, integer / string literals, true/false/nil,
    [+ - * / % << >> & | ^], comparisons on integers, strings, bools and error-vs-nil,
    short-circuit [&& ||], [!], len, a[i] (out of range = panic), a[i:] / a[i:j],
    integer conversions ([EWrap]), string <-> []byte conversions (identity),
    binary.BigEndian.Uint16/32/64, math/bits.Len64, append(a, x) on a local slice, make([]T, n),
    fmt.Errorf / errors.New (an opaque non-nil error), a LOCAL map[string]T ([VMap]: literal,
    m[k] with the zero value when absent, comma-ok, m[k] = v, m[k]++), calls of outside-world
    functions through the program's oracle ([SOracle], e.g. objects.GetCommit; a returned struct
    is the list of the fields the code reads), a LOCAL map[K]struct{} with integer keys
    as a set ([m[k] = struct{}{}] is [EAppend], [_, ok := m[k]] is [EHas]), and
    buf.Buffer(n) for a parameter of type encoding.Bufferer (the parameter IS the arbitrary
    byte string the buffer contains; the call is buf[:n]).
    Statements: [:=], [=], op-assignment, [++ --], [var], multi-assignment, a[i] = v on a
    local or in/out slice, *p = v on a pointer parameter, if / else with init statement,
    for init; cond; post, for i, x := range slice (NOT over a string: Go ranges over runes),
    labelled break / continue, return (also bare, with named results), panic, copy(dst, src),
    calls of other translated functions (hoisted into [SCall] statements when they occur in an
    unconditionally evaluated expression position).  Everything else is [SUnsupported] /
    [EUnsupported]: goroutines, defer, closures, switch, select, goto, method calls, structs,
    general maps, pointers other than a dereferenced parameter, floating point.
    Batch 2 additions: map[string]T / map[uint8]T ([VMap]; a uint8 key is its one-byte string,
    [EKeyOfInt]); [for k, v := range m] over a map ([SRangeMap]: the order is whatever
    permutation of the keys the program's oracle answers, theorems hold for every oracle);
    outside-world calls through the oracle ([SOracle]); bytes.Compare ([ECompare]), bytes.Equal;
    make([]T, n, c) with its panic ([EMakeCap]); copy(x[off:], src) and
    binary.BigEndian.PutUintNN(x[off:], v) ([SCopyAt], [SPutBe]); sort.Search(n, closure) inlined
    by the translator as the standard library's halving loop; methods: a value receiver of a
    named slice type is the first parameter, the fields of a struct receiver are leading
    parameters (in/out when written), a []byte field whose capacity is used has a companion
    parameter holding the bytes between len and cap; *[N]T parameters are in/out slices.
    The interpreter iterates [range] over a snapshot of the slice; the translator refuses
    writes to the ranged slice inside the loop body, where Go's behaviour would differ. *)
From Coq Require Import List ZArith NArith Bool String Lia.
From W.lib Require Import Tree Bytes.
Import ListNotations.
Local Open Scope Z_scope.

Inductive value :=
| VInt (z : Z)
| VBool (b : bool)
| VStr (s : bytes)               (* string, []byte *)
| VList (l : list value)         (* []T for other T; nil slice = VList [] *)
| VMap (m : list (bytes * value)) (* map[string]T: association list, the first binding of a key counts *)
| VNil                           (* nil error / nil in a return position *)
| VErr                           (* some non-nil error *)
| VUnset.                        (* a variable slot that has not been declared yet *)

(** integer kinds for the explicit wrap *)
Inductive ikind := IU (bits : Z) | IS (bits : Z).
Definition wrap (k : ikind) (z : Z) : Z :=
  match k with
  | IU w => z mod 2 ^ w
  | IS w => (z + 2 ^ (w - 1)) mod 2 ^ w - 2 ^ (w - 1)
  end.
Definition in_kind (k : ikind) (z : Z) : Prop :=
  match k with
  | IU w => 0 <= z < 2 ^ w
  | IS w => - 2 ^ (w - 1) <= z < 2 ^ (w - 1)
  end.

Inductive binop :=
| Add | Sub | Mul | Quot | Rem | Shl | Shr | BAnd | BOr | BXor
| Eq | Ne | Lt | Le | Gt | Ge.

Inductive expr :=
| EVar (x : nat)
| EInt (z : Z)
| EBool (b : bool)
| EStr (s : bytes)
| ENil
| EErr                                   (* fmt.Errorf(..), errors.New(..) *)
| EBin (op : binop) (a b : expr)
| EAnd (a b : expr)                      (* short circuit *)
| EOr (a b : expr)
| ENot (a : expr)
| ELen (a : expr)
| EIndex (a i : expr)                    (* out of range = panic *)
| ESlice (a : expr) (lo hi : option expr)
| EWrap (k : ikind) (a : expr)           (* conversion to / arithmetic at an integer type *)
| EBe (w : nat) (a : expr)               (* binary.BigEndian.Uint16/32/64 (w = 2/4/8) *)
| EAppend (a b : expr)                   (* append(a, b), one element *)
| ELen64 (a : expr)                      (* math/bits.Len64 *)
| ECompare (a b : expr)                  (* bytes.Compare: -1, 0, 1 *)
| EHas (m k : expr)                      (* _, ok := m[k] for a set m (map[K]struct{}, K integer) *)
| EMapEmpty                              (* map[string]T{} *)
| EMapGet (m k : expr) (zero : value)    (* m[k] for a map[string]T, [zero] when absent *)
| EMapHas (m k : expr)                   (* _, ok := m[k] for a map[string]T *)
| EKeyOfInt (a : expr)                   (* the key of a map[uint8]T: the one-byte string *)
| EMakeBytes (n : expr)                  (* make([]byte, n) *)
| EMakeList (n : expr) (zero : value)    (* make([]T, n) *)
| EMakeCap (n c : expr) (zero : value)   (* make([]T, n, c): panics unless 0 <= n <= c; the capacity is
                                            not observable otherwise ([]byte: zero = VInt 0) *)
| EUnsupported (why : string).

Inductive lhs :=
| LVar (x : nat) | LBlank | LIndex (x : nat) (i : expr)
| LMapSet (x : nat) (k : expr).          (* m[k] = v for a LOCAL map[string]T held in variable x *)

Inductive stmt :=
| SSkip
| SSeq (a b : stmt)
| SAssign (ls : list lhs) (es : list expr)              (* parallel assignment, also := and var *)
| SCall (ls : list lhs) (f : string) (args : list expr) (* x, y := f(args) for a translated f *)
| SOracle (ls : list lhs) (f : string) (args : list expr) (* x, y := f(args) for an outside-world function
                                                           (a store lookup): the program's oracle *)
| SIf (c : expr) (t e : stmt)
| SFor (id : nat) (c : expr) (post body : stmt)         (* init is emitted before the loop *)
| SRange (id : nat) (k v : option nat) (e : expr) (body : stmt)
| SRangeMap (id : nat) (k v : option nat) (intkey : bool) (m : expr) (body : stmt)
    (* for k, v := range m over a map: the iteration order is chosen by the program's oracle
       (call "map.order" on the list of keys; it must answer with a permutation of them);
       theorems hold for every oracle, i.e. for every order.  The body must not write m. *)
| SBreak (id : nat)
| SContinue (id : nat)
| SReturn (es : list expr)
| SPanic
| SCopy (dst : nat) (src : expr)                        (* copy(dst, src), dst a variable *)
| SCopyAt (dst : nat) (off : expr) (src : expr)         (* copy(dst[off:], src) *)
| SPutBe (w : nat) (dst : nat) (off : expr) (v : expr)  (* binary.BigEndian.PutUintN(dst[off:], v), N = 8w *)
| SUnsupported (why : string).

Record func := {
  f_nparams : nat;          (* variables 0 .. f_nparams-1 *)
  f_nvars : nat;
  f_outs : list nat;        (* in/out parameters, reported after the results *)
  f_body : stmt
}.
(** a program: the translated functions and an oracle for the outside-world calls ([SOracle]);
    theorems about code that uses the oracle quantify over it *)
Record prog := {
  p_funcs : list (string * func);
  p_oracle : string -> list value -> option (list value)
}.
Definition no_oracle : string -> list value -> option (list value) := fun _ _ => None.
Definition with_oracle (p : prog) (o : string -> list value -> option (list value)) : prog :=
  {| p_funcs := p_funcs p; p_oracle := o |}.

Definition env := list value.

Inductive eres := EV (v : value) | EPanic | EStuck.
Inductive eress := EVs (vs : list value) | EsPanic | EsStuck.

Inductive outcome :=
| ONormal (e : env)
| OBreak (id : nat) (e : env)
| OContinue (id : nat) (e : env)
| OReturn (vs : list value) (e : env)
| OPanic
| OOutOfFuel
| OStuck.                   (* ill-typed / unsupported: never equal to a model result *)

Inductive fres :=
| FOk (rets outs : list value)
| FPanic
| FOutOfFuel
| FStuck.

(** * environments *)
Fixpoint upd (x : nat) (v : value) (e : env) : env :=
  match e, x with
  | [], _ => []
  | _ :: e', O => v :: e'
  | a :: e', S x' => a :: upd x' v e'
  end.
Definition get (x : nat) (e : env) : value := nth x e VUnset.

(** * expressions *)
Definition ebind (r : eres) (k : value -> eres) : eres :=
  match r with EV v => k v | EPanic => EPanic | EStuck => EStuck end.

(** 0 <= z < n *)
Definition in_bounds (z : Z) (n : nat) : bool := (0 <=? z) && (z <? Z.of_nat n).
(** 0 <= z <= n *)
Definition in_bounds_incl (z : Z) (n : nat) : bool := (0 <=? z) && (z <=? Z.of_nat n).

Definition byte_val (n : N) : value := VInt (Z.of_N n).

Definition is_neg (z : Z) : bool := z <? 0.
Definition make_ok (n c : Z) : bool := (0 <=? n) && (n <=? c).    (* make([]T, n, c) does not panic *)

Definition binop_int (op : binop) (x y : Z) : eres :=
  match op with
  | Add => EV (VInt (x + y))
  | Sub => EV (VInt (x - y))
  | Mul => EV (VInt (x * y))
  | Quot => if y =? 0 then EPanic else EV (VInt (Z.quot x y))
  | Rem => if y =? 0 then EPanic else EV (VInt (Z.rem x y))
  | Shl => if is_neg y then EPanic else EV (VInt (Z.shiftl x y))     (* negative count panics *)
  | Shr => if is_neg y then EPanic else EV (VInt (Z.shiftr x y))
  | BAnd => EV (VInt (Z.land x y))
  | BOr => EV (VInt (Z.lor x y))
  | BXor => EV (VInt (Z.lxor x y))
  | Eq => EV (VBool (x =? y))
  | Ne => EV (VBool (negb (x =? y)))
  | Lt => EV (VBool (x <? y))
  | Le => EV (VBool (x <=? y))
  | Gt => EV (VBool (y <? x))
  | Ge => EV (VBool (y <=? x))
  end.

Definition binop_str (op : binop) (a b : bytes) : eres :=
  match op with
  | Add => EV (VStr (a ++ b))
  | Eq => EV (VBool (beqb a b))
  | Ne => EV (VBool (negb (beqb a b)))
  | Lt => EV (VBool (blt a b))
  | Le => EV (VBool (bleb a b))
  | Gt => EV (VBool (bgt a b))
  | Ge => EV (VBool (bleb b a))
  | _ => EStuck
  end.

Definition binop_bool (op : binop) (a b : bool) : eres :=
  match op with
  | Eq => EV (VBool (Bool.eqb a b))
  | Ne => EV (VBool (negb (Bool.eqb a b)))
  | _ => EStuck
  end.

Definition is_nilish (v : value) : option bool :=   (* Some true = nil, Some false = non-nil error / map *)
  match v with
  | VNil => Some true
  | VErr => Some false
  | VMap _ => Some false
  | VList _ => Some false       (* a non-nil map[K]struct{} (the translator compares only maps with nil) *)
  | _ => None
  end.

Definition binop_val (op : binop) (a b : value) : eres :=
  match a, b with
  | VInt x, VInt y => binop_int op x y
  | VStr x, VStr y => binop_str op x y
  | VBool x, VBool y => binop_bool op x y
  | _, _ =>
      match is_nilish a, is_nilish b with
      | Some x, Some y =>
          match op with
          | Eq => if x || y then EV (VBool (Bool.eqb x y)) else EStuck
          | Ne => if x || y then EV (VBool (negb (Bool.eqb x y))) else EStuck
          | _ => EStuck
          end
      | _, _ => EStuck
      end
  end.

Definition len64 (z : Z) : Z := Z.of_N (N.size (Z.to_N z)).

(** a[l:] and a[l:h] (len = cap assumed for the upper bound of the second form) *)
Definition slice_from_val (va vlo : value) : eres :=
  match vlo with
  | VInt l =>
      match va with
      | VStr s => if in_bounds_incl l (length s) then EV (VStr (skipn (Z.to_nat l) s)) else EPanic
      | VList s => if in_bounds_incl l (length s) then EV (VList (skipn (Z.to_nat l) s)) else EPanic
      | _ => EStuck
      end
  | _ => EStuck
  end.
Definition slice_range_val (va vlo vhi : value) : eres :=
  match vlo, vhi with
  | VInt l, VInt h =>
      match va with
      | VStr s =>
          if in_bounds_incl h (length s) && in_bounds_incl l (Z.to_nat h)
          then EV (VStr (firstn (Z.to_nat h - Z.to_nat l) (skipn (Z.to_nat l) s))) else EPanic
      | VList s =>
          if in_bounds_incl h (length s) && in_bounds_incl l (Z.to_nat h)
          then EV (VList (firstn (Z.to_nat h - Z.to_nat l) (skipn (Z.to_nat l) s))) else EPanic
      | _ => EStuck
      end
  | _, _ => EStuck
  end.

(** binary.BigEndian.UintNN *)
Definition be_val (w : nat) (va : value) : eres :=
  match va with
  | VStr s => if (w <=? length s)%nat then EV (VInt (Z.of_N (unbe (firstn w s)))) else EPanic
  | _ => EStuck
  end.

(** sets of integers (map[K]struct{}): a list of keys; insertion is [EAppend] *)
Definition int_is (z : Z) (v : value) : bool := match v with VInt y => Z.eqb y z | _ => false end.
Definition has_val (vm vk : value) : eres :=
  match vm, vk with
  | VList l, VInt z => EV (VBool (existsb (int_is z) l))
  | VNil, VInt _ => EV (VBool false)           (* lookup in a nil map *)
  | _, _ => EStuck
  end.

(** map[string]T *)
Fixpoint map_find (k : bytes) (m : list (bytes * value)) : option value :=
  match m with
  | [] => None
  | (k', v) :: m' => if beqb k' k then Some v else map_find k m'
  end.
Definition map_get_val (zero : value) (vm vk : value) : eres :=
  match vm, vk with
  | VMap m, VStr k => EV (match map_find k m with Some v => v | None => zero end)
  | _, _ => EStuck
  end.
Definition map_has_val (vm vk : value) : eres :=
  match vm, vk with
  | VMap m, VStr k => EV (VBool (match map_find k m with Some _ => true | None => false end))
  | _, _ => EStuck
  end.

Definition compare_val (va vb : value) : eres :=
  match va, vb with
  | VStr a, VStr b => EV (VInt (match bcmp a b with Datatypes.Lt => -1 | Datatypes.Eq => 0 | Datatypes.Gt => 1 end))
  | _, _ => EStuck
  end.

Fixpoint eval (e : env) (x : expr) {struct x} : eres :=
  match x with
  | EVar n => match nth_error e n with
              | Some VUnset => EStuck
              | Some v => EV v
              | None => EStuck
              end
  | EInt z => EV (VInt z)
  | EBool b => EV (VBool b)
  | EStr s => EV (VStr s)
  | ENil => EV VNil
  | EErr => EV VErr
  | EBin op a b => ebind (eval e a) (fun va => ebind (eval e b) (fun vb => binop_val op va vb))
  | EAnd a b => ebind (eval e a) (fun va =>
                  match va with
                  | VBool false => EV (VBool false)
                  | VBool true => ebind (eval e b) (fun vb => match vb with VBool _ => EV vb | _ => EStuck end)
                  | _ => EStuck
                  end)
  | EOr a b => ebind (eval e a) (fun va =>
                  match va with
                  | VBool true => EV (VBool true)
                  | VBool false => ebind (eval e b) (fun vb => match vb with VBool _ => EV vb | _ => EStuck end)
                  | _ => EStuck
                  end)
  | ENot a => ebind (eval e a) (fun va => match va with VBool b => EV (VBool (negb b)) | _ => EStuck end)
  | ELen a => ebind (eval e a) (fun va =>
                  match va with
                  | VStr s => EV (VInt (Z.of_nat (length s)))
                  | VList l => EV (VInt (Z.of_nat (length l)))
                  | _ => EStuck
                  end)
  | EIndex a i =>
      ebind (eval e a) (fun va => ebind (eval e i) (fun vi =>
        match vi with
        | VInt z =>
            match va with
            | VStr s => if in_bounds z (length s) then EV (byte_val (nth (Z.to_nat z) s 0%N)) else EPanic
            | VList l => if in_bounds z (length l) then EV (nth (Z.to_nat z) l VUnset) else EPanic
            | _ => EStuck
            end
        | _ => EStuck
        end))
  | ESlice a lo hi =>
      ebind (eval e a) (fun va =>
      ebind (match lo with Some x => eval e x | None => EV (VInt 0) end) (fun vlo =>
      match hi with
      | None => slice_from_val va vlo
      | Some x => ebind (eval e x) (fun vhi => slice_range_val va vlo vhi)
      end))
  | EWrap k a => ebind (eval e a) (fun va => match va with VInt z => EV (VInt (wrap k z)) | _ => EStuck end)
  | EBe w a => ebind (eval e a) (be_val w)
  | EAppend a b => ebind (eval e a) (fun va => ebind (eval e b) (fun vb =>
                  match va, vb with
                  | VList l, _ => EV (VList (l ++ [vb]))
                  | VStr s, VInt z => EV (VStr (s ++ [Z.to_N z]))
                  | _, _ => EStuck
                  end))
  | EMapEmpty => EV (VMap [])
  | EMapGet m k zero => ebind (eval e m) (fun vm => ebind (eval e k) (fun vk => map_get_val zero vm vk))
  | EKeyOfInt a => ebind (eval e a) (fun va => match va with VInt z => EV (VStr [Z.to_N z]) | _ => EStuck end)
  | EMapHas m k => ebind (eval e m) (fun vm => ebind (eval e k) (fun vk => map_has_val vm vk))
  | EHas m k => ebind (eval e m) (fun vm => ebind (eval e k) (fun vk => has_val vm vk))
  | ECompare a b => ebind (eval e a) (fun va => ebind (eval e b) (fun vb => compare_val va vb))
  | ELen64 a => ebind (eval e a) (fun va => match va with VInt z => EV (VInt (len64 z)) | _ => EStuck end)
  | EMakeBytes n => ebind (eval e n) (fun vn =>
                  match vn with
                  | VInt z => if is_neg z then EPanic else EV (VStr (repeat 0%N (Z.to_nat z)))
                  | _ => EStuck
                  end)
  | EMakeList n zero => ebind (eval e n) (fun vn =>
                  match vn with
                  | VInt z => if is_neg z then EPanic else EV (VList (repeat zero (Z.to_nat z)))
                  | _ => EStuck
                  end)
  | EMakeCap n c zero => ebind (eval e n) (fun vn => ebind (eval e c) (fun vc =>
                  match vn, vc with
                  | VInt z, VInt zc =>
                      if negb (make_ok z zc) then EPanic
                      else match zero with
                           | VInt _ => EV (VStr (repeat 0%N (Z.to_nat z)))
                           | _ => EV (VList (repeat zero (Z.to_nat z)))
                           end
                  | _, _ => EStuck
                  end))
  | EUnsupported _ => EStuck
  end.

Fixpoint evals (e : env) (xs : list expr) : eress :=
  match xs with
  | [] => EVs []
  | x :: xs' =>
      match eval e x with
      | EV v => match evals e xs' with EVs vs => EVs (v :: vs) | o => o end
      | EPanic => EsPanic
      | EStuck => EsStuck
      end
  end.

(** * assignment *)
Definition assign1 (l : lhs) (v : value) (e : env) : outcome :=
  match l with
  | LVar x => ONormal (upd x v e)
  | LBlank => ONormal e
  | LIndex x i =>
      match eval e i with
      | EV (VInt z) =>
          match get x e, v with
          | VStr s, VInt b =>
              if in_bounds z (length s)
              then ONormal (upd x (VStr (firstn (Z.to_nat z) s ++ Z.to_N b :: skipn (S (Z.to_nat z)) s)) e)
              else OPanic
          | VList s, _ =>
              if in_bounds z (length s)
              then ONormal (upd x (VList (firstn (Z.to_nat z) s ++ v :: skipn (S (Z.to_nat z)) s)) e)
              else OPanic
          | _, _ => OStuck
          end
      | EV _ => OStuck
      | EPanic => OPanic
      | EStuck => OStuck
      end
  | LMapSet x k =>
      match eval e k with
      | EV (VStr kk) =>
          match get x e with
          | VMap m => ONormal (upd x (VMap ((kk, v) :: m)) e)
          | _ => OStuck
          end
      | EV _ => OStuck
      | EPanic => OPanic
      | EStuck => OStuck
      end
  end.

Fixpoint assign_all (ls : list lhs) (vs : list value) (e : env) : outcome :=
  match ls, vs with
  | [], [] => ONormal e
  | l :: ls', v :: vs' =>
      match assign1 l v e with
      | ONormal e' => assign_all ls' vs' e'
      | o => o
      end
  | _, _ => OStuck
  end.

(** copy(dst, src): the first min(len dst, len src) elements *)
Definition copy_into {A} (dst src : list A) : list A :=
  firstn (length dst) src ++ skipn (length src) dst.

(** * loops *)
Inductive lctl := LNext (e : env) | LExit (e : env) | LProp (o : outcome).
Definition loop_ctl (id : nat) (o : outcome) : lctl :=
  match o with
  | ONormal e => LNext e
  | OContinue j e => if Nat.eqb j id then LNext e else LProp o
  | OBreak j e => if Nat.eqb j id then LExit e else LProp o
  | _ => LProp o
  end.

Definition items_of (v : value) : option (list value) :=
  match v with
  | VList l => Some l
  | VStr s => Some (map byte_val s)      (* []byte only: the translator refuses range over string *)
  | _ => None
  end.

Definition set_opt (x : option nat) (v : value) (e : env) : env :=
  match x with Some n => upd n v e | None => e end.

(** for k, v := range items (already evaluated, as Go does) *)
Fixpoint range_loop (run : env -> outcome) (id : nat) (k v : option nat)
         (items : list value) (i : Z) (e : env) : outcome :=
  match items with
  | [] => ONormal e
  | x :: rest =>
      match loop_ctl id (run (set_opt v x (set_opt k (VInt i) e))) with
      | LNext e1 => range_loop run id k v rest (i + 1) e1
      | LExit e1 => ONormal e1
      | LProp o => o
      end
  end.

(** range over a map *)
Fixpoint map_keys (m : list (bytes * value)) : list bytes :=
  match m with
  | [] => []
  | (k, _) :: m' => k :: filter (fun k' => negb (beqb k k')) (map_keys m')
  end.
Fixpoint nodupb (l : list bytes) : bool :=
  match l with
  | [] => true
  | k :: l' => negb (existsb (beqb k) l') && nodupb l'
  end.
Definition perm_ok (l1 l2 : list bytes) : bool :=
  Nat.eqb (length l1) (length l2) && forallb (fun k => existsb (beqb k) l2) l1 && nodupb l1.
Fixpoint strs_of (vs : list value) : option (list bytes) :=
  match vs with
  | [] => Some []
  | VStr s :: vs' => match strs_of vs' with Some l => Some (s :: l) | None => None end
  | _ => None
  end.
Definition key_value (intkey : bool) (k : bytes) : value :=
  if intkey then VInt (Z.of_N (nth 0 k 0%N)) else VStr k.
Definition map_lookup (m : list (bytes * value)) (k : bytes) : value :=
  match map_find k m with Some v => v | None => VUnset end.

Fixpoint range_map_loop (run : env -> outcome) (id : nat) (kx vx : option nat) (intkey : bool)
         (m : list (bytes * value)) (keys : list bytes) (e : env) : outcome :=
  match keys with
  | [] => ONormal e
  | k :: rest =>
      match loop_ctl id (run (set_opt vx (map_lookup m k) (set_opt kx (key_value intkey k) e))) with
      | LNext e1 => range_map_loop run id kx vx intkey m rest e1
      | LExit e1 => ONormal e1
      | LProp o => o
      end
  end.

(** * functions *)
Fixpoint lookup_in (l : list (string * func)) (name : string) : option func :=
  match l with
  | [] => None
  | (n, f) :: l' => if String.eqb n name then Some f else lookup_in l' name
  end.
Definition lookup_func (p : prog) (name : string) : option func := lookup_in (p_funcs p) name.

Definition init_env (fd : func) (args : list value) : env :=
  args ++ repeat VUnset (f_nvars fd - length args).

Definition ret_of (outs : list nat) (o : outcome) : fres :=
  match o with
  | OReturn vs e => FOk vs (map (fun x => get x e) outs)
  | ONormal e => FOk [] (map (fun x => get x e) outs)
  | OPanic => FPanic
  | OOutOfFuel => FOutOfFuel
  | _ => FStuck
  end.
Definition call_result (fd : func) (o : outcome) : fres := ret_of (f_outs fd) o.

(** * statements: big-step, fuel decreases at every node.
    [exec_step rec] is one level of the interpreter with the recursive calls abstracted. *)
Definition exec_step (rec : stmt -> env -> outcome) (p : prog) (s : stmt) (e : env) : outcome :=
  match s with
  | SSkip => ONormal e
  | SSeq a b =>
      match rec a e with
      | ONormal e1 => rec b e1
      | o => o
      end
  | SAssign ls es =>
      match evals e es with
      | EVs vs => assign_all ls vs e
      | EsPanic => OPanic
      | EsStuck => OStuck
      end
  | SCall ls fn args =>
      match lookup_func p fn, evals e args with
      | Some fd, EVs vs =>
          if Nat.eqb (length vs) (f_nparams fd) then
            match f_outs fd with
            | [] =>
                match call_result fd (rec (f_body fd) (init_env fd vs)) with
                | FOk rets _ => assign_all ls rets e
                | FPanic => OPanic
                | FOutOfFuel => OOutOfFuel
                | FStuck => OStuck
                end
            | _ => OStuck            (* callees with in/out parameters are not supported *)
            end
          else OStuck
      | Some _, EsPanic => OPanic
      | _, _ => OStuck
      end
  | SOracle ls fn args =>
      match evals e args with
      | EVs vs =>
          match p_oracle p fn vs with
          | Some rets => assign_all ls rets e
          | None => OStuck
          end
      | EsPanic => OPanic
      | EsStuck => OStuck
      end
  | SIf c t el =>
      match eval e c with
      | EV (VBool true) => rec t e
      | EV (VBool false) => rec el e
      | EPanic => OPanic
      | _ => OStuck
      end
  | SFor id c post body =>
      match eval e c with
      | EV (VBool false) => ONormal e
      | EV (VBool true) =>
          match loop_ctl id (rec body e) with
          | LNext e1 =>
              match rec post e1 with
              | ONormal e2 => rec (SFor id c post body) e2
              | o => o
              end
          | LExit e1 => ONormal e1
          | LProp o => o
          end
      | EPanic => OPanic
      | _ => OStuck
      end
  | SRange id k v ex body =>
      match eval e ex with
      | EV cv =>
          match items_of cv with
          | Some items => range_loop (rec body) id k v items 0 e
          | None => OStuck
          end
      | EPanic => OPanic
      | EStuck => OStuck
      end
  | SRangeMap id kx vx intkey mx body =>
      match eval e mx with
      | EV (VMap m) =>
          match p_oracle p "map.order" [VList (map VStr (map_keys m))] with
          | Some [VList vs] =>
              match strs_of vs with
              | Some keys =>
                  if perm_ok keys (map_keys m)
                  then range_map_loop (rec body) id kx vx intkey m keys e
                  else OStuck
              | None => OStuck
              end
          | _ => OStuck
          end
      | EV _ => OStuck
      | EPanic => OPanic
      | EStuck => OStuck
      end
  | SBreak id => OBreak id e
  | SContinue id => OContinue id e
  | SReturn es =>
      match evals e es with
      | EVs vs => OReturn vs e
      | EsPanic => OPanic
      | EsStuck => OStuck
      end
  | SPanic => OPanic
  | SCopy dst src =>
      match eval e src with
      | EV vsrc =>
          match get dst e, vsrc with
          | VStr d, VStr s => ONormal (upd dst (VStr (copy_into d s)) e)
          | VList d, VList s => ONormal (upd dst (VList (copy_into d s)) e)
          | _, _ => OStuck
          end
      | EPanic => OPanic
      | EStuck => OStuck
      end
  | SCopyAt dst off src =>
      match eval e off, eval e src with
      | EV (VInt o), EV vsrc =>
          match get dst e, vsrc with
          | VStr d, VStr s =>
              if in_bounds_incl o (length d)
              then ONormal (upd dst (VStr (firstn (Z.to_nat o) d ++ copy_into (skipn (Z.to_nat o) d) s)) e)
              else OPanic
          | VList d, VList s =>
              if in_bounds_incl o (length d)
              then ONormal (upd dst (VList (firstn (Z.to_nat o) d ++ copy_into (skipn (Z.to_nat o) d) s)) e)
              else OPanic
          | _, _ => OStuck
          end
      | EPanic, _ => OPanic
      | EV _, EPanic => OPanic
      | _, _ => OStuck
      end
  | SPutBe w dst off v =>
      match eval e off, eval e v with
      | EV (VInt o), EV (VInt z) =>
          match get dst e with
          | VStr d =>
              if in_bounds_incl o (length d) && (w <=? length d - Z.to_nat o)%nat
              then ONormal (upd dst (VStr (firstn (Z.to_nat o) d ++ be w (Z.to_N z) ++ skipn (Z.to_nat o + w) d)) e)
              else OPanic
          | _ => OStuck
          end
      | EPanic, _ => OPanic
      | EV _, EPanic => OPanic
      | _, _ => OStuck
      end
  | SUnsupported _ => OStuck
  end.

Fixpoint exec (fuel : nat) (p : prog) (s : stmt) (e : env) {struct fuel} : outcome :=
  match fuel with
  | O => OOutOfFuel
  | S f => exec_step (exec f p) p s e
  end.

Definition run_func (fuel : nat) (p : prog) (fd : func) (args : list value) : fres :=
  if Nat.eqb (length args) (f_nparams fd)
  then call_result fd (exec fuel p (f_body fd) (init_env fd args))
  else FStuck.

(** * encodings of model data as values *)
Definition v_nat (n : nat) : value := VInt (Z.of_nat n).
Definition v_N (n : N) : value := VInt (Z.of_N n).
Definition v_strs (l : list bytes) : value := VList (map VStr l).
Definition v_strss (l : list (list bytes)) : value := VList (map v_strs l).
Definition v_nats (l : list nat) : value := VList (map v_nat l).
