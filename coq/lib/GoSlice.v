(** Go outcomes and slice operations with their panics made explicit.

    [res A] is what a Go call can do from the caller's point of view: return a value,
    return an error (only its class is kept), or panic.  Index / slice expressions and
    binary.BigEndian.UintNN are functions into [res] so that "never panics" is a statement
    about model values and not a by-product of Gallina's totality.

    Error classes (what errors.Is can still see after the wrapping done by the code):
      CEof    errors.Is(err, io.EOF)
      CUnexp  errors.Is(err, io.ErrUnexpectedEOF)
      COther  anything else (fmt.Errorf with %v, ParseError, hex errors, ...)
      CFuel   NOT a Go error: the model's loop fuel ran out.  Theorems exclude it.

    Allocation: the decoders (lib/Reader.v, [prog]) carry an allocation meter in bytes.
    Conventions: make([]T, len, cap) costs cap * sizeof T; append costs sizeof T per
    appended element (plus the bytes of a freshly converted string); scratch buffers that
    grow geometrically are charged, at every call, the whole geometric series they would
    cost starting from their initial size (an upper bound of the real cost). *)
From W.lib Require Import Tree Bytes.
From Coq Require Import Lia Arith.

Inductive errclass := CEof | CUnexp | COther | CFuel.

Inductive res (A : Type) : Type :=
| Ok (a : A)
| Err (e : errclass)
| Panic.
Arguments Ok {A} a.
Arguments Err {A} e.
Arguments Panic {A}.

Definition errclass_eqb (a b : errclass) : bool :=
  match a, b with
  | CEof, CEof | CUnexp, CUnexp | COther, COther | CFuel, CFuel => true
  | _, _ => false
  end.

Definition rbind {A B} (r : res A) (f : A -> res B) : res B :=
  match r with Ok a => f a | Err e => Err e | Panic => Panic end.

Definition is_panic {A} (r : res A) : bool := match r with Panic => true | _ => false end.
Definition is_ok {A} (r : res A) : bool := match r with Ok _ => true | _ => false end.

(** status of the exchange format: 0 ok / 1 error / 2 panic *)
Definition status {A} (r : res A) : N := match r with Ok _ => 0%N | Err _ => 1%N | Panic => 2%N end.

Section Slices.
  Context {A : Type}.
  (** l[i] *)
  Definition idx (l : list A) (i : nat) : res A :=
    match nth_error l i with Some x => Ok x | None => Panic end.
  (** l[i:] *)
  Definition slice_from (l : list A) (i : nat) : res (list A) :=
    if i <=? length l then Ok (skipn i l) else Panic.
  (** l[:j]   (len = cap for every slice the decoders cut this way) *)
  Definition slice_to (l : list A) (j : nat) : res (list A) :=
    if j <=? length l then Ok (firstn j l) else Panic.
  (** l[i:j] *)
  Definition slice_range (l : list A) (i j : nat) : res (list A) :=
    if (i <=? j) && (j <=? length l) then Ok (firstn (j - i) (skipn i l)) else Panic.
End Slices.

(** binary.BigEndian.Uint16/32/64: they index b[1] / b[3] / b[7] first *)
Definition be_uint (w : nat) (b : bytes) : res N :=
  if w <=? length b then Ok (unbe (firstn w b)) else Panic.
Definition be_u16 := be_uint 2.
Definition be_u32 := be_uint 4.
Definition be_u64 := be_uint 8.

(** a buffer of n bytes whose first bytes are d (the rest is whatever was there: zero for
    a fresh make; stale bytes of a reused buffer are modelled as zero as well and are
    never observable on a successful decode) *)
Definition pad (n : nat) (d : bytes) : bytes := firstn n d ++ repeat 0%N (n - length d).

(** maxPrealloc (pkg/objects/str_list.go) and the pre-fix behaviour *)
Inductive precap := Capped (c : N) | Uncapped.
Definition prealloc (pc : precap) (n : N) : N :=
  match pc with Capped c => N.min n c | Uncapped => n end.
Definition max_prealloc : N := 1024%N.
Definition precap_of_code : precap := Capped max_prealloc.
