(** Exchange type between the Go harness, the OCaml driver and the models. *)
From Coq Require Export List NArith Bool.
Export ListNotations.
Local Open Scope N_scope.

Inductive tree := Leaf (n : N) | Node (l : list tree).

Definition bytes := list N.

Definition t_bytes (b : bytes) : tree := Node (map Leaf b).
Definition t_bool (b : bool) : tree := Leaf (if b then 1 else 0).
Definition t_list {A} (f : A -> tree) (l : list A) : tree := Node (map f l).
Definition t_opt {A} (f : A -> tree) (o : option A) : tree :=
  match o with None => Node [] | Some a => Node [f a] end.
Definition t_nat (n : nat) : tree := Leaf (N.of_nat n).

Definition d_N (t : tree) : N := match t with Leaf n => n | Node _ => 0 end.
Definition d_nat (t : tree) : nat := N.to_nat (d_N t).
Definition d_bool (t : tree) : bool := negb (N.eqb (d_N t) 0).
Definition d_list {A} (f : tree -> A) (t : tree) : list A :=
  match t with Leaf _ => [] | Node l => map f l end.
Definition d_bytes (t : tree) : bytes := d_list d_N t.
Definition d_nth (i : nat) (t : tree) : tree :=
  match t with Leaf _ => Node [] | Node l => nth i l (Node []) end.
Definition d_opt {A} (f : tree -> A) (t : tree) : option A :=
  match t with Node [x] => Some (f x) | _ => None end.
