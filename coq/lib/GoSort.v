(** Go's sort.Search: the literal halving loop. *)
From Coq Require Import Arith List.
Fixpoint search_loop (fuel : nat) (f : nat -> bool) (i j : nat) : nat :=
  match fuel with
  | 0 => i
  | S fuel' =>
      if i <? j then
        let h := (i + j) / 2 in
        if f h then search_loop fuel' f i h else search_loop fuel' f (S h) j
      else i
  end.
(* fuel: each iteration at least halves j - i, so [S n] is more than enough *)
Definition search (n : nat) (f : nat -> bool) : nat := search_loop (S n) f 0 n.
