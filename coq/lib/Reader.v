(** io.Reader model, io.ReadFull, io.CopyN, and the decoder language [prog].

    A reader is the list of chunks the transport will still deliver plus a flag saying
    whether the last chunk's bytes arrive together with io.EOF (iotest.DataErrReader,
    HTTP bodies) or EOF comes on a separate, later call (bytes.Reader).

    [read n r] is ONE call r.Read(buf) with len(buf) = n:
      - no chunk left: (0 bytes, EOF)  -- also for n = 0, as bytes.Reader does;
      - first chunk c with |c| <= n: the whole chunk (possibly 0 bytes with a nil error:
        Go readers are allowed to return (0, nil), so EMPTY CHUNKS ARE ALLOWED), error
        EOF iff it was the last chunk and the flag is set, else nil;
      - |c| > n: the first n bytes, nil; the rest of the chunk stays first.

    [read_full n r] is io.ReadFull = io.ReadAtLeast(r, buf, n), the literal loop
      for got < n && err == nil { nn, err = r.Read(buf[got:]); got += nn }
      if got >= n { err = nil } else if got > 0 && err == EOF { err = ErrUnexpectedEOF }.
    [copy_n bufsz n r] is io.CopyN(bytes.Buffer, r, n): LimitedReader + Buffer.ReadFrom,
    which reads into whatever spare capacity (>= 1 byte; [bufsz written]) it has.

    Decoders are values of [prog]: trees whose only access to the stream is a ReadFull
    site ([Rd], tagged with the source location so that the pre-fix single-Read code can
    be modelled by a [read_kind] table) or the CopyN of PackfileReader.ReadObject ([Cp]),
    and which meter their allocations ([Alloc]).  [exec] interprets a prog over a chunked
    reader, [exec_pure] over the remaining byte string; proofs/Reader_proofs.v shows that
    with every site [Full] the former factors through the latter. *)
From Coq Require Import String.
From Coq Require Import List Lia Arith.
From W.lib Require Import Tree Bytes GoSlice.
Local Open Scope N_scope.

Record reader := mk_reader { chunks : list bytes; eof_with_data : bool }.

Definition rest (r : reader) : bytes := concat (chunks r).

Definition ioerr := option errclass.      (* None = nil *)

Definition read (n : nat) (r : reader) : bytes * ioerr * reader :=
  match chunks r with
  | [] => ([], Some CEof, r)
  | c :: cs =>
      if (length c <=? n)%nat then
        (c,
         if eof_with_data r && (match cs with [] => true | _ => false end) then Some CEof else None,
         mk_reader cs (eof_with_data r))
      else (firstn n c, None, mk_reader (skipn n c :: cs) (eof_with_data r))
  end.

Definition eof_or_unexpected (got : bytes) : errclass :=
  match got with [] => CEof | _ => CUnexp end.

(* fuel: every iteration that does not finish pops one chunk *)
Fixpoint read_full_loop (fuel need : nat) (acc : bytes) (r : reader) : bytes * ioerr * reader :=
  match need with
  | O => (acc, None, r)
  | S _ =>
      match fuel with
      | O => (acc, Some CFuel, r)
      | S fuel' =>
          let '(d, e, r') := read need r in
          let acc' := acc ++ d in
          let need' := (need - length d)%nat in
          match e with
          | None => read_full_loop fuel' need' acc' r'
          | Some _ =>
              match need' with
              | O => (acc', None, r')
              | S _ => (acc', Some (eof_or_unexpected acc'), r')
              end
          end
      end
  end.

Definition read_full (n : nat) (r : reader) : bytes * ioerr * reader :=
  read_full_loop (S (length (chunks r))) n [] r.

(* fuel: every iteration that does not finish pops a chunk or takes >= 1 byte *)
Fixpoint copy_n_loop (bufsz : N -> nat) (fuel : nat) (remaining : N) (acc : bytes) (r : reader)
  : bytes * ioerr * reader :=
  if remaining =? 0 then (acc, None, r)
  else
    match fuel with
    | O => (acc, Some CFuel, r)
    | S fuel' =>
        let want := N.to_nat (N.min remaining (N.of_nat (bufsz (N.of_nat (length acc))))) in
        let '(d, e, r') := read want r in
        let acc' := acc ++ d in
        let remaining' := remaining - N.of_nat (length d) in
        match e with
        | None => copy_n_loop bufsz fuel' remaining' acc' r'
        | Some _ => if remaining' =? 0 then (acc', None, r') else (acc', Some CEof, r')
        end
    end.

Definition copy_n (bufsz : N -> nat) (n : N) (r : reader) : bytes * ioerr * reader :=
  copy_n_loop bufsz (S (length (chunks r) + length (rest r))) n [] r.

(* bytes.Buffer.ReadFrom grows by at least bytes.MinRead before every Read *)
Definition buffer_spare (written : N) : nat := 512%nat.

(** Partitions.  [p] lists chunk sizes; a size larger than what is left gives a shorter
    (possibly empty) chunk, 0 gives an empty chunk, and whatever [p] does not cover is one
    final chunk.  Hence EVERY [p] is a partition of EVERY [s]. *)
Fixpoint split_by (p : list nat) (s : bytes) : list bytes :=
  match p with
  | [] => match s with [] => [] | _ => [s] end
  | n :: p' => firstn n s :: split_by p' (skipn n s)
  end.

Definition chunked (p : list nat) (s : bytes) (eof_flag : bool) : reader :=
  mk_reader (split_by p s) eof_flag.
Definition whole (s : bytes) : reader := chunked [] s false.

(** Read sites: every place where the decoders fill a fixed-size buffer from an io.Reader.
    Name = "<file>:<function>#<k>", k = index (source order, from 0) among the calls
    X.Read(b) / io.ReadFull(X, b) / io.ReadAtLeast / io.CopyN in that function body. *)
Inductive site :=
| S_parser_next | S_objline_readbytes
| S_pack_hdr0 | S_pack_hdr1 | S_pack_magic | S_pack_version | S_pack_body
| S_block_count
| S_bidx_len | S_bidx_off | S_bidx_row
| S_table_block
| S_ulist_u32
| S_flist_u32 | S_flist_f64
| S_slist_u16 | S_slist_u32 | S_slist_cell
| S_slist_rb0 | S_slist_rb1 | S_slist_rb2.

Definition all_sites : list site :=
  [S_parser_next; S_objline_readbytes;
   S_pack_hdr0; S_pack_hdr1; S_pack_magic; S_pack_version; S_pack_body;
   S_block_count; S_bidx_len; S_bidx_off; S_bidx_row; S_table_block; S_ulist_u32;
   S_flist_u32; S_flist_f64; S_slist_u16; S_slist_u32; S_slist_cell;
   S_slist_rb0; S_slist_rb1; S_slist_rb2].

Local Open Scope string_scope.
Definition site_name (s : site) : string :=
  match s with
  | S_parser_next => "pkg/encoding/parser.go:Parser.NextBytes#0"
  | S_objline_readbytes => "pkg/encoding/objline/field.go:ReadBytes#0"
  | S_pack_hdr0 => "pkg/encoding/packfile/packfile.go:decodeObjTypeAndLen#0"
  | S_pack_hdr1 => "pkg/encoding/packfile/packfile.go:decodeObjTypeAndLen#1"
  | S_pack_magic => "pkg/encoding/packfile/packfile.go:PackfileReader.readVersion#0"
  | S_pack_version => "pkg/encoding/packfile/packfile.go:PackfileReader.readVersion#1"
  | S_pack_body => "pkg/encoding/packfile/packfile.go:PackfileReader.ReadObject#0"
  | S_block_count => "pkg/objects/block.go:ReadBlockFrom#0"
  | S_bidx_len => "pkg/objects/block_index.go:BlockIndex.ReadFrom#0"
  | S_bidx_off => "pkg/objects/block_index.go:BlockIndex.ReadFrom#1"
  | S_bidx_row => "pkg/objects/block_index.go:BlockIndex.ReadFrom#2"
  | S_table_block => "pkg/objects/table.go:Table.readBlock#0"
  | S_ulist_u32 => "pkg/objects/uint_list.go:UintListDecoder.readUint32#0"
  | S_flist_u32 => "pkg/objects/float_list.go:FloatListDecoder.readUint32#0"
  | S_flist_f64 => "pkg/objects/float_list.go:FloatListDecoder.readFloat64#0"
  | S_slist_u16 => "pkg/objects/str_list.go:StrListDecoder.readUint16#0"
  | S_slist_u32 => "pkg/objects/str_list.go:StrListDecoder.readUint32#0"
  | S_slist_cell => "pkg/objects/str_list.go:StrListDecoder.Read#0"
  | S_slist_rb0 => "pkg/objects/str_list.go:StrListDecoder.ReadBytes#0"
  | S_slist_rb1 => "pkg/objects/str_list.go:StrListDecoder.ReadBytes#1"
  | S_slist_rb2 => "pkg/objects/str_list.go:StrListDecoder.ReadBytes#2"
  end.
Local Close Scope string_scope.

Definition sites : list string := map site_name all_sites.

(** [Single]: the buffer is filled by ONE Read and then used as if it were full (the code
    before fix 27d6b14); [Full]: io.ReadFull (or io.CopyN for the object body). *)
Inductive read_kind := Single | Full.

Definition all_full (k : string -> read_kind) : Prop :=
  Forall (fun nm => k nm = Full) sites.
Definition kinds_of (k : string -> read_kind) : site -> read_kind := fun s => k (site_name s).
Definition read_kinds_of_code : site -> read_kind := fun _ => Full.

Inductive prog (A : Type) : Type :=
| Ret (a : A)
| Fail (e : errclass)                       (* return ..., err *)
| Crash                                     (* runtime panic *)
| Rd (s : site) (n : nat) (k : bytes -> ioerr -> prog A)    (* fill an n-byte buffer *)
| Cp (s : site) (n : N) (k : bytes -> ioerr -> prog A)      (* io.CopyN(bytes.Buffer, r, n) *)
| Alloc (c : N) (k : prog A).
Arguments Ret {A} a.
Arguments Fail {A} e.
Arguments Crash {A}.
Arguments Rd {A} s n k.
Arguments Cp {A} s n k.
Arguments Alloc {A} c k.

Fixpoint bind {A B} (p : prog A) (f : A -> prog B) : prog B :=
  match p with
  | Ret a => f a
  | Fail e => Fail e
  | Crash => Crash
  | Rd s n k => Rd s n (fun d e => bind (k d e) f)
  | Cp s n k => Cp s n (fun d e => bind (k d e) f)
  | Alloc c k => Alloc c (bind k f)
  end.

(** if err != nil { ... } on a callee's result: errors become values, panics propagate *)
Fixpoint attempt {A} (p : prog A) : prog (errclass + A) :=
  match p with
  | Ret a => Ret (inr a)
  | Fail e => Ret (inl e)
  | Crash => Crash
  | Rd s n k => Rd s n (fun d e => attempt (k d e))
  | Cp s n k => Cp s n (fun d e => attempt (k d e))
  | Alloc c k => Alloc c (attempt k)
  end.

Definition lift {A} (r : res A) : prog A :=
  match r with Ok a => Ret a | Err e => Fail e | Panic => Crash end.

Declare Scope prog_scope.
Delimit Scope prog_scope with prog.
Notation "x <- p ;; q" := (bind p (fun x => q))
  (at level 61, p at next level, right associativity) : prog_scope.
Notation "' pat <- p ;; q" := (bind p (fun x => match x with pat => q end))
  (at level 61, pat pattern, p at next level, right associativity) : prog_scope.

(** One buffer fill at a site of the given kind.  [Single]: what one Read returned, padded
    to the buffer size because the caller goes on to use the whole buffer, and the error
    of that one Read (so data arriving together with EOF is treated as a failure). *)
Definition do_read (k : read_kind) (n : nat) (r : reader) : bytes * ioerr * reader :=
  match k with
  | Full => read_full n r
  | Single => let '(d, e, r') := read n r in (pad n d, e, r')
  end.

Definition do_copy (k : read_kind) (n : N) (r : reader) : bytes * ioerr * reader :=
  match k with
  | Full => copy_n buffer_spare n r
  | Single =>   (* one Read into a buffer of the announced size *)
      let '(d, e, r') := read (N.to_nat n) r in
      (d, match e with Some c => Some c | None => if N.of_nat (length d) <? n then Some CEof else None end, r')
  end.

Fixpoint exec {A} (kd : site -> read_kind) (p : prog A) (r : reader) (m : N) : res A * reader * N :=
  match p with
  | Ret a => (Ok a, r, m)
  | Fail e => (Err e, r, m)
  | Crash => (Panic, r, m)
  | Rd s n k => let '(d, e, r') := do_read (kd s) n r in exec kd (k d e) r' m
  | Cp s n k => let '(d, e, r') := do_copy (kd s) n r in exec kd (k d e) r' m
  | Alloc c k => exec kd k r (m + c)
  end.

(** the same over the remaining byte string *)
Definition pure_read_full (n : nat) (s : bytes) : bytes * ioerr * bytes :=
  if (n <=? length s)%nat then (firstn n s, None, skipn n s)
  else (s, Some (eof_or_unexpected s), []).

Definition pure_copy_n (n : N) (s : bytes) : bytes * ioerr * bytes :=
  if n <=? N.of_nat (length s) then (firstn (N.to_nat n) s, None, skipn (N.to_nat n) s)
  else (s, Some CEof, []).

Fixpoint exec_pure {A} (p : prog A) (s : bytes) (m : N) : res A * bytes * N :=
  match p with
  | Ret a => (Ok a, s, m)
  | Fail e => (Err e, s, m)
  | Crash => (Panic, s, m)
  | Rd _ n k => let '(d, e, s') := pure_read_full n s in exec_pure (k d e) s' m
  | Cp _ n k => let '(d, e, s') := pure_copy_n n s in exec_pure (k d e) s' m
  | Alloc c k => exec_pure k s (m + c)
  end.

(** Loop combinators used by the decoder models.
    [for_n fuel body n i st]  =  for ; i < n; i++ { st = body i st }   (errors return)
    [loop_u fuel body st]     =  for { ... }  with [inr r] = leave the loop with r *)
Fixpoint for_n {S} (fuel : nat) (body : N -> S -> prog S) (n i : N) (st : S) : prog S :=
  if i <? n then
    match fuel with
    | O => Fail CFuel
    | Datatypes.S f => bind (body i st) (fun st' => for_n f body n (i + 1) st')
    end
  else Ret st.

Fixpoint loop_u {S R} (fuel : nat) (body : S -> prog (S + R)) (st : S) : prog R :=
  match fuel with
  | O => Fail CFuel
  | Datatypes.S f =>
      bind (body st) (fun x => match x with inl st' => loop_u f body st' | inr r => Ret r end)
  end.
