(** Byte strings as [list N] (each < 256), Go string / bytes.Compare order,
    big-endian fixed-width integers.  Shared by the codec, sorter and diff models. *)
From W.lib Require Import Tree.
From Coq Require Import Lia Arith.
Local Open Scope N_scope.

Definition wf_byte (x : N) : Prop := x < 256.
Definition wf_bytes (b : bytes) : Prop := Forall wf_byte b.
Definition wf_bytesb (b : bytes) : bool := forallb (fun x => x <? 256) b.

(** lexicographic comparison = Go's [a < b] on strings and [bytes.Compare] *)
Fixpoint bcmp (a b : bytes) : comparison :=
  match a, b with
  | [], [] => Eq
  | [], _ :: _ => Lt
  | _ :: _, [] => Gt
  | x :: a', y :: b' => match N.compare x y with Eq => bcmp a' b' | c => c end
  end.
Definition blt (a b : bytes) : bool := match bcmp a b with Lt => true | _ => false end.
Definition bgt (a b : bytes) : bool := match bcmp a b with Gt => true | _ => false end.
Definition beqb (a b : bytes) : bool := match bcmp a b with Eq => true | _ => false end.
Definition bleb (a b : bytes) : bool := match bcmp a b with Gt => false | _ => true end.

(** comparison of key vectors (one byte string per key column), the component-wise
    loop of StringSliceIsLess / StrList.LessThan / findOverlappingBlocks.
    On vectors of different length the shorter one is a prefix case: Lt. *)
Fixpoint kcmp (a b : list bytes) : comparison :=
  match a, b with
  | [], [] => Eq
  | [], _ :: _ => Lt
  | _ :: _, [] => Gt
  | x :: a', y :: b' => match bcmp x y with Eq => kcmp a' b' | c => c end
  end.
Definition klt (a b : list bytes) : bool := match kcmp a b with Lt => true | _ => false end.
Definition keqb (a b : list bytes) : bool := match kcmp a b with Eq => true | _ => false end.

Lemma bcmp_refl a : bcmp a a = Eq.
Proof. induction a as [|x a IH]; cbn; [reflexivity|]. now rewrite N.compare_refl. Qed.

Lemma bcmp_eq a b : bcmp a b = Eq <-> a = b.
Proof.
  split; [|intros ->; apply bcmp_refl].
  revert b; induction a as [|x a IH]; intros [|y b]; cbn; try discriminate; [reflexivity|].
  destruct (N.compare_spec x y) as [->|H|H]; try discriminate.
  intros E; f_equal; auto.
Qed.

Lemma bcmp_antisym a b : bcmp b a = CompOpp (bcmp a b).
Proof.
  revert b; induction a as [|x a IH]; intros [|y b]; cbn; try reflexivity.
  rewrite (N.compare_antisym x y). destruct (N.compare x y); cbn; auto.
Qed.

Lemma bcmp_lt_trans a b c : bcmp a b = Lt -> bcmp b c = Lt -> bcmp a c = Lt.
Proof.
  revert b c; induction a as [|x a IH]; intros [|y b] [|z c]; cbn; try discriminate; auto.
  destruct (N.compare_spec x y) as [->|Hxy|Hxy]; try discriminate.
  - destruct (N.compare_spec y z) as [->|Hyz|Hyz]; try discriminate; eauto.
  - intros _. destruct (N.compare_spec y z) as [->|Hyz|Hyz]; try discriminate; intros _.
    + destruct (N.compare_spec x z); try lia; reflexivity.
    + destruct (N.compare_spec x z); try lia; reflexivity.
Qed.

Lemma kcmp_refl a : kcmp a a = Eq.
Proof. induction a as [|x a IH]; cbn; [reflexivity|]. now rewrite bcmp_refl. Qed.

Lemma kcmp_eq a b : kcmp a b = Eq <-> a = b.
Proof.
  split; [|intros ->; apply kcmp_refl].
  revert b; induction a as [|x a IH]; intros [|y b]; cbn; try discriminate; [reflexivity|].
  destruct (bcmp x y) eqn:E; try discriminate.
  apply bcmp_eq in E; subst. intros E; f_equal; auto.
Qed.

Lemma kcmp_antisym a b : kcmp b a = CompOpp (kcmp a b).
Proof.
  revert b; induction a as [|x a IH]; intros [|y b]; cbn; try reflexivity.
  rewrite (bcmp_antisym x y). destruct (bcmp x y); cbn; auto.
Qed.

Lemma kcmp_lt_trans a b c : kcmp a b = Lt -> kcmp b c = Lt -> kcmp a c = Lt.
Proof.
  revert b c; induction a as [|x a IH]; intros [|y b] [|z c]; cbn; try discriminate; auto.
  destruct (bcmp x y) eqn:Exy; try discriminate.
  - apply bcmp_eq in Exy; subst y. destruct (bcmp x z); try discriminate; eauto.
  - intros _. destruct (bcmp y z) eqn:Eyz; try discriminate; intros _.
    + apply bcmp_eq in Eyz; subst z. now rewrite Exy.
    + now rewrite (bcmp_lt_trans _ _ _ Exy Eyz).
Qed.

(** big-endian fixed width *)
Fixpoint be (w : nat) (n : N) : bytes :=      (* w bytes, most significant first *)
  match w with O => [] | S w' => be w' (n / 256) ++ [n mod 256] end.
Definition unbe (b : bytes) : N := fold_left (fun acc x => acc * 256 + x) b 0.

Lemma be_length w n : length (be w n) = w.
Proof. revert n; induction w as [|w IH]; intros n; cbn; [reflexivity|]. rewrite app_length, IH; cbn; lia. Qed.

Lemma unbe_app a b : unbe (a ++ b) = fold_left (fun acc x => acc * 256 + x) b (unbe a).
Proof. unfold unbe. now rewrite fold_left_app. Qed.

Lemma unbe_be w n : n < 256 ^ N.of_nat w -> unbe (be w n) = n.
Proof.
  revert n; induction w as [|w IH]; intros n Hn.
  - cbn in *. lia.
  - cbn [be]. rewrite unbe_app. cbn [fold_left].
    rewrite IH.
    + rewrite N.mul_comm. symmetry. apply N.div_mod. lia.
    + rewrite Nat2N.inj_succ, N.pow_succ_r' in Hn.
      apply N.div_lt_upper_bound; lia.
Qed.

Lemma be_wf w n : wf_bytes (be w n).
Proof.
  revert n; induction w as [|w IH]; intros n; cbn; [constructor|].
  apply Forall_app; split; [apply IH|]. constructor; [|constructor].
  unfold wf_byte. apply N.mod_lt. lia.
Qed.

Fixpoint is_prefix (p s : bytes) : bool :=
  match p, s with
  | [], _ => true
  | _ :: _, [] => false
  | x :: p', y :: s' => (x =? y) && is_prefix p' s'
  end.
