"""Configuration of ./check C05 (see pylib/props.py)."""
CFG = dict(
        coq=["props/C05.vo", "props/Compose.vo", "props/Compose4.vo"],
        tie=["gen/Tie_Code_Cols.vo"],
        compose=['Compose_discard', 'Compose_merge_', 'Compose_collision', 'Compose_wide', 'Compose_keyless', 'Compose_pool_flow_'],
        model_vo=["model/ColDiff.vo", "model/Merge.vo", "model/MergeSpec.vo"],
        extract="Ex_C05",
        level_text="PARTIAL BY PLAN. Proved: CompareColumns on duplicate-free column lists, any number of branches "
                   "(Names duplicate-free = union of all names, key first, index maps injective onto own names, "
                   "Added/Removed = set differences); row level for ANY number of layers: tryResolve marks a column "
                   "unresolved iff the name-based specification finds two different changes, else yields the specified "
                   "value, Resolved iff no removal and no conflict (C05_resolve_cell, C05_resolved_flag), and a resolved "
                   "row never contains an invented value (C05_never_silent, unconditional); table level under the "
                   "same-layout guard (all tables share the duplicate-free columns, key first), ANY number of branches: "
                   "the result holds exactly the rows the specification prescribes, strictly ascending by key "
                   "(C05_merge_guard_partial, C05_result_sorted), order-independence under any permutation (C05_order), "
                   "untouched rows/cells (C05_untouched_*), and for two branches identity, idempotence and disjoint edits "
                   "(C05_identity, C05_identity_left, C05_idem, C05_disjoint); command level (`wrgl merge` without "
                   "--no-gui, model cmd_merge): a concluded merge has no unresolved record and any unresolved record - also "
                   "one with no unresolved column - makes the command refuse (C05_cmd_committed_all_resolved, "
                   "C05_cmd_unresolved_refused), under the guard it refuses exactly when the specification finds a "
                   "conflict and otherwise commits the specified rows (C05_cmd_guard); the known findings F1, F2, D1-D4 "
                   "as _refuted witnesses. Model tied to "
                   "pkg/diff + pkg/merge + cmd/wrgl merge by differential execution with an independent name-based oracle.",
        level_note="Theorems are about coq/model/{ColDiff,Merge}.v (hand transliteration); the diff is modelled by its "
                   "specification (C04), row/key sums by the cell sequences (hash injectivity), the discarded-key set "
                   "as a set (C20), the collector's sorter as stable sort + dedupe on the configured key positions (C19). "
                   "Table-level laws when a branch changes the layout or the key is not first (where the code deviates: "
                   "known findings), keyless tables, the policy 'accept the proposed ResolvedRow', column renames and the "
                   "interactive resolution path are covered by correspondence only. The command-level refusal is observed with "
                   "TERM set to a non-existent terminal (the tview merge tool then fails to start and runMerge returns its "
                   "error); the merge tool itself (widgets) is not modelled.",
        rule="fixed witnesses (known findings F1/F2/D1-D4, repository tests, laws); exhaustive: every pair of branches "
             "over a 2-row (id,v) base with cell alphabet {a,b} (each branch keeps/removes/edits each row, may add row 3) "
             "x 3 caller policies, plus column scripts (remove/swap/rename/add) on a 3-column base; random edit scripts "
             "(row add/remove/edit, column add/remove/reorder/rename), key at any position, composite keys, keyless, "
             "N in {2,3}, mostly-untouched and multi-block bases; CLI merge --no-gui/--no-commit/commit+export, and - when "
             "the library reports an unresolved record - `wrgl merge` and `wrgl merge --no-commit` WITHOUT --no-gui with the "
             "merge tool unable to start (TERM names no terminal): the command must refuse and leave the branch alone "
             "(class merge-cmd-unresolved-not-reported); stream 'removal-vs-layout' (library and CLI): one branch removes "
             "rows, the other only drops/adds/reorders/renames a column; stream 'blockshift': multi-block bases where a "
             "branch deletes exactly j*255 leading rows or inserts 255 rows in front and the other branch edits rows of "
             "the shifted blocks; "
             "CompareColumns alone on random (occasionally malformed) column lists. "
             "distinct = distinct case text; non-trivial = some branch differs from the base",
        trusted=["row sum = cell sequence of the row in the table's own layout, key sum = key cells (MeowHash injective)",
                 "per-branch diff = its specification (one event per key of base or branch), C04",
                 "collector sorter = stable sort on the configured key positions + first-of-run dedupe (C19); Go's sort.Slice "
                 "is unstable: ties only occur inside the known finding merge-untouched-rows-in-base-layout / keyless",
                 "discarded-key hash set = a set (C20)"],
        assumptions=["tables come from ingest: rows have the width of the column list, column names are distinct, "
                     "keys are distinct within a table",
                     "cases whose sorter goroutine can panic (known finding F1, removed column index beyond a base-layout "
                     "row) run in a child process of the harness"],
)
