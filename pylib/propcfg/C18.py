"""Configuration of ./check C18 (see pylib/props.py)."""
CFG = dict(
        coq=["props/C18.vo", "props/Compose2.vo"],
        compose=['Compose_codec_'],
        tie=["gen/Tie_C18.vo"],
        model_vo=["model/DecRun.vo"],
        extract="Ex_C18",
        level_text="Theorems C18_read_full / C18_copy_n (io.ReadFull and io.CopyN return the same data, error and stream "
                   "position for EVERY partition of the remaining bytes into successive reads, empty reads and data+EOF "
                   "included) and C18_every_decoder (any decoder written in the decoder language, hence packfile, pkt-lines, "
                   "commit, table, block, block index, uint list, profile, decodes EVERY byte string - not only valid ones - "
                   "to the same value / error class / allocation / position under every partition as from one buffer), for "
                   "every all-Full read-kind table; C18_single_refuted shows the pre-fix single Read violates it. Model tied "
                   "to the Go decoders by differential execution under the harness's own chunk reader and iotest readers.",
        level_note="Theorems are about coq/model/Dec*.v (hand transliteration of the decoders as programs over io.ReadFull / "
                   "io.CopyN sites); the table of read kinds of the source is assumed all-Full here and is meant to be "
                   "re-extracted by the translator (gen/Tie_C18.v: all_full extracted_read_kind over Reader.sites); until that "
                   "tie exists a regression from io.ReadFull to a single Read is caught by the correspondence only.",
        rule="streams: per kind (packfile, pkt-lines, commit, table, block, block index, uint list, profile, str list, float "
             "list) 10 (quick) / 40 (thorough) streams written by the real encoders (PackfileWriter, Commit.WriteTo, "
             "Table.WriteTo, WriteBlockTo, IndexBlock+WriteTo, list encoders, WritePktLine, TableProfile.WriteTo), the last "
             "of each kind truncated at a random offset; partitions per stream: whole, whole+EOF, one byte per read (own "
             "reader and iotest.OneByteReader), iotest.HalfReader, iotest.DataErrReader, every split point k=0..16 of the "
             "first 16 bytes (odd k with data+EOF), 8/12 random partitions with chunk sizes 0..9 (0 = empty read) and random "
             "EOF flag. distinct = distinct case text; non-trivial = non-empty stream under a partition other than the "
             "whole buffer",
        trusted=["chunk reader c18ChunkReader (Go) implements lib/Reader.v read; for iotest.HalfReader/DataErrReader the model "
                 "is run on the partition recorded in the case, the Go oracle compares against the whole-buffer result",
                 "time zone offsets and unix seconds of commit times are compared as integers (time.Parse/-0700 and "
                 "strconv.ParseInt modelled by go_parse_tz/go_parse_int in model/DecRun.v)"],
        assumptions=["every fixed-size read site of the decoders is io.ReadFull / io.CopyN (Reader.sites; to be discharged "
                     "by the translator tie)",
                     "an io.Reader delivers a finite sequence of chunks and then io.EOF (a reader returning (0, nil) forever "
                     "is outside the model; io.ReadFull would spin on it)"],
)
