"""Configuration of ./check C13 (see pylib/props.py)."""
CFG = dict(
        coq=["props/C13.vo"],
        tie=["gen/Tie_C13.vo", "gen/Tie_Code_ChildrenFirst.vo"],
        model_vo=["model/CrashRepo.vo", "model/Crash.vo", "gen/Extracted.vo"],
        extract="Ex_C13",
        level_text="PARTIAL. Theorems over ALL states, inputs, worker interleavings and crash points about the write-list model "
                   "coq/model/Crash.v (every operation = list of atomic writes generated from the write-order skeletons the translator "
                   "regenerates from the Go source): C13_prefix_consistent (every prefix of commit, commitWithTable, DeleteHead, merge "
                   "commit / no-ff / fast-forward, fetch = receive ANY packfile object sequence + save refs, prune keeps Closed, "
                   "RefsResolve, TableUsable, HeadsFull; an injected write error at position n leaves the same state), "
                   "C13_history_consistent (hence every state any history of completed / crashed operations can reach, incl. pull = "
                   "fetch;merge and re-runs), C13_children_first (prune.childrenFirst = Kahn: permutation, every commit after all its "
                   "to-remove children), C13_rerun_commit / _commit_with_table / _merge_commit / _merge_noff / _fetch / _pull_new_branch / _prune (re-run from any crash "
                   "state succeeds, ends invariant and agrees with the uninterrupted run on ref |-> table + history shape, commit "
                   "nonce = time stamp quotiented; prune: same commits, tables, blocks, block indices, refs), C13_profile_commit / _fetch; "
                   "forbidden orders refuted by witnesses (C13_table_first_commit_refuted, C13_table_first_receive_refuted = tree before "
                   "2b449a8; C13_prune_closed_refuted = key order before b7554dd, with C13_prune_any_order_partial; "
                   "C13_prune_commits_first_rerun_refuted). Model tied to the code by (a) gen/Tie_C13.v on the regenerated skeletons and "
                   "(b) differential execution: recorded store-write trace of the real ingest / ObjectReceiver / merge / prune / ref "
                   "code vs the model's write list, every prefix replayed into fresh stores and judged by the repository's own readers, "
                   "re-run, and a write error injected at every position.",
        level_note="Partial by design: atomicity of one badger Set/Delete and of one SQL transaction (ref + reflog), and the durability "
                   "ORDER between the object store and the ref store, are hypotheses (one model write = one atomic, ordered step). "
                   "The theorems are about the hand-written write-list model; they hold under skels_ok (checked by the tie on the "
                   "regenerated skeletons). REAL operations on the injected recording / fault-injecting stores, each with crash-from-n and a single failing write "
                   "n at EVERY write position (object and ref writes), judged, re-run healthy and compared with the uninterrupted run: "
                   "cmd/wrgl commit, commitWithTable, runMerge (through the `verif` export hooks wrgl.VerifCommit / "
                   "VerifCommitWithTable / VerifRunMerge), ref.DeleteHead, prune.Prune, and the exported fetch.Fetch against the "
                   "in-process reference server harness/c09_server.go. STILL RE-ENACTED: only batch fetch / fetch-hostile (kind 6), "
                   "which feeds ObjectReceiver.Receive (real) packfiles whose object ORDER the generator chooses, incl. hostile orders no "
                   "server sends, followed by a copy of the ref rule of saveFetchedRefs. Commits made by the real commit / merge carry "
                   "time.Now(); the nonce travels in the commit message. `wrgl pull` (op OPull of the model, theorem C13_rerun_pull_new_branch) runs through the REAL CLI on badger+sqlite against the reference server (batch cli-pull): the CLI opens its own stores, so the fault layer is a set of sqlite triggers in the repository's ref store that make ref-store write k and all later ones fail (= a crash right before ref write k), dropped before the re-run; compared with the model on (exit status, ref writes in reflog order, per-fault verdicts, final refs); object-store (badger) faults cannot be injected at the CLI and are covered by the library-level batches. Oracle-only batch cli-tx: `wrgl transaction commit` with the same ref-store fault layer (refs must keep resolving, the re-run completes the transaction; transactions are C14's model). The real CLI (wrgl.RootCmd on badger+sqlite) is also run "
                   "un-crashed: three histories compared with the library-level run, and histories with SHALLOW commits (wrgl pull / "
                   "fetch --depth against the reference server, then wrgl merge in default / --no-ff / --ff-only / --ff and wrgl pull "
                   "--depth) judged for the invariants after every command. The real-binary kill hook (VERIF_CRASH_AT) is not used. Re-run of fetch is proved for a run whose object "
                   "phase had succeeded, re-run with the same objects. Not findings but theorems about leftovers: orphan tables of an "
                   "interrupted commit are never swept while no commit is removable (C13_prune_orphan_table_not_swept); a crash between "
                   "DeleteTable and DeleteTableIndex leaks the index/profile (C13_prune_rerun_leaves_index_garbage); merge writes the "
                   "profile after the table (C13_merge_profile_after_table; profiles are not in the property text).",
        rule="fixed witnesses first (corpus: commit / receive of multi-block tables = 2b449a8, prune of an unreferenced commit chain "
             "crashed and faulted at every delete = b7554dd); small scope: commit of {0,1,1',2,2',3}-block tables x {empty repo, 1-block "
             "parent, 2-block parent sharing a block}; 4..6 workers; on top of interrupted commits; commitWithTable / DeleteHead; real "
             "merges (modify / add / remove rows, 1..3 blocks, 1..4 workers), fast-forward both ways, identical, ff=never; fetch of "
             "sequences produced by the real ObjectSender (full, incremental, one object per packfile, after an interrupted fetch, "
             "rejected and forced non-fast-forward, shallow) and hostile orders (table before blocks, commit before parent, block-index "
             "mismatch, advertised commit missing); the real fetch.Fetch against the reference server (full, incremental, two branches, rejected / forced non-fast-forward, after an interrupted fetch incl. 'all objects stored, ref not written', random chains); CLI histories with shallow commits; `wrgl pull` through the CLI with a crash before every ref-store write (first pull of a branch, tracking ref already present, up to date / fast-forward / real merge into an existing branch, rejected and forced tracking ref); `wrgl transaction commit` with ref-store faults; prune with orphans sharing blocks/tables, early return, after interrupted prunes; orphan sub-DAGs of 4..9 commits with forks and merges of unequal branch lengths (fetched through the real ObjectSender under one branch per tip, branches deleted): fixed witnesses (a<-b<-c<-e + a<-d, orphan merge of two orphan branches, lopsided diamonds, two roots) and random DAGs, every prefix of the commit-deletion phase judged for Closed; "
             "random histories of 2..6 steps (commit, crashed commit, branch, delete branch, fetch, prune) followed by a random "
             "operation. EVERY case enumerates ALL crash prefixes n=0..L (re-run from each) and a write error at every position. "
             "distinct = distinct case text; non-trivial = the operation performs at least one write on a non-empty table / history",
        trusted=["abstract ids: a block / block index is a number per distinct content, a table is its (block, index) list, a commit is "
                 "(table, parents, nonce); the harness maps real 16-byte sums to ids through the objects it ingested / decoded "
                 "(999999 = unknown). The model lists keys in insertion order, the code in hash order: maximal runs of block/index "
                 "puts and of same-phase deletes are sorted before comparison; setup steps are cut only where that order is irrelevant",
                 "recording wrappers around objmock (mutex) and the SQLite ref store; a prefix state = replay of the recorded calls "
                 "into fresh stores; consistency judged with GetCommit / CommitExist / GetTable / GetBlock / GetBlockIndex / "
                 "GetTableIndex / IndexBlock re-indexing / TableExist / doctor.Diagnose"],
        assumptions=["one badger Set/Delete is atomic; one SQL transaction (SetWithLog: ref + reflog; Delete: reflog + ref) is atomic",
                     "writes become durable in the order they were issued, across the object store and the ref store",
                     "content addressing: equal sums have equal contents (ids are contents in the model)",
                     "the commit key listing has no duplicate key (WF)",
                     "op_pre: commitWithTable is given a present table; merge ff=never onto an ancestor assumes the head's table exists"],
)
