"""Configuration of ./check C04 (see pylib/props.py)."""
CFG = dict(
        coq=["props/C04.vo", "props/Compose.vo"],
        compose=['Compose_ingest_table_wf', 'Compose_wf_tables', 'Compose_sorter_table', 'Compose_ingest_diff'],
        tie=["gen/Tie_C04.vo", "gen/Tie_Code_RowAddr.vo", "gen/Tie_Code_Overlap.vo", "gen/Tie_Code_BlockIndexGet.vo"],
        model_vo=["model/Diff.vo", "model/DiffSpec.vo", "model/DiffHashed.vo"],
        extract="Ex_C04",
        level_text="C04_diff_correct: for all well-formed tables (any number of blocks, either side empty, any block size) the "
                   "transliterated diffTables (window search with prevEnd threading, getBlockIndices slice arithmetic with "
                   "explicit Panic, first-hit lookup in the window, two passes) returns exactly the event list defined by "
                   "global key lookup; C04_window_complete (the prevEnd invariant), C04_no_panic, C04_events_exact "
                   "(added/removed/modified iff ...), C04_self_empty, C04_swap (permutation), C04_offsets "
                   "(RowToBlockAndOffset addresses the rows), C04_no_dup, C04_get_hashed (sort.Search+equality Get = lookup "
                   "by key for an injective hash), C04_empty_panics_refuted (the pre-7a1623b code panics). Model tied to "
                   "pkg/diff by differential execution on tables built through ingest.IngestTable, incl. the consumers of the events "
                   "(wrgl diff --no-gui, RowListReader, RowChangeReader, TableReader), both store arrangements, and table indices "
                   "produced by ingest as well as rebuilt by ingest.IndexTable.",
        level_note="Theorems are about coq/model/Diff.v (hand transliteration); tie = correspondence harness over "
                   "diff.DiffTables and diff.VerifFindOverlappingBlocks. The table index is taken to be the first keys of the "
                   "blocks (C03) and key lookup is by key equality (MeowHash collision freedom, see C04_get_hashed).",
        rule="diff cases (tag 0): fixed witnesses (non-empty vs empty both ways); exhaustive: all pairs of tables over 3 keys "
             "each absent/rowid 0/rowid 1 (729); all ordered pairs of 12 (quick) / 23 (thorough) tables of 0..4 blocks of 255 "
             "rows (one row, 254/255/256 rows, interleaved evens/odds, nested, disjoint, identical ranges with changed rows, "
             "4 full blocks); block-edge clusters (one key dropped/inserted at positions 0,253..256,509,510,last); composite "
             "keys tying on the first component in 3 column layouts, empty/prefix components; keyless tables with equal and "
             "different columns; same pk with different columns, different pk, emitUnchanged; random pairs (disjoint, nested, "
             "edited copy, overlapping). window cases (tag 1): all pairs of strictly increasing first-key vectors of length "
             "<=4 over 6 words (prefix-related) x every off1 x every prevEnd 0..n, plus random composite vectors. "
             "prefix batch: 2- and 3-column keys whose components come from a family built to break join-then-compare (\"\", \" \", a, a\\x00, \"a \", a!, a\\\", \"a,\", a-, ab, a\\xff, \"b,\", \\x80; second components starting with a digit or a space), groups sharing the first component straddling or exceeding block boundaries, tables of up to 6 blocks, all ordered pairs; windows-prefix: all pairs of strictly increasing vectors of length <=3 over 8 (thorough 10) such 2-column keys and of length <=2 (thorough 3) over 9 3-column keys with the prefix relation in the middle column; window cases are run before the table cases. "
             "shifted batch: table pairs sharing whole blocks at DIFFERENT block positions (first block removed, middle block removed, 255 / 510 rows inserted in front, last block moved in front of other rows, short last block appended, edits inside shared blocks and at block edges), base of 3 (thorough 4) full blocks, run with emitUnchanged off and on (on: every unchanged row is an event whose offsets are checked against the stored rows), in one shared store, and through the readers. reindexed batch (flag bit 2): the table indices of both tables rebuilt by ingest.IndexTable (the route of a received table) for tables whose key columns are not the leading columns (single key last of 3 columns, composite layouts), keyless tables and shifted pairs. "
             "flags on tag-0 cases: emitUnchanged on for all exhaustive pairs and a fifth of the block pairs; both tables in one "
             "object store (default: each table in its own store, db1 != db2) for a third of the exhaustive pairs, a sixth "
             "of the block pairs and all edge pairs. reader cases (tag 3): DiffTables consumed through RowListReader / "
             "RowChangeReader (merged cells predicted from the case) + full TableReader pass, over the edge, keyless, "
             "column, composite, block and random pairs, emitUnchanged alternating. CLI cases (tag 2): `wrgl diff A B "
             "--no-gui` in-process on a temp repository, 16 (quick) pairs: small, 600-row tables edited at rows "
             "254/255/256/509, composite keys, keyless, different columns, 4 full blocks, empty side, different pk; as two "
             "branches, CSV file vs branch, branch vs CSV file; every row of DIFF_*.csv mapped back by cell contents. distinct = "
             "distinct case text; non-trivial = at least one row / both indices non-empty",
        trusted=["row content hash abstracted to a rowid (cells = key values, decimal rowid, constant filler); PK/Sum/OldSum "
                 "hashes mapped back to keys/rows by the harness hashing every key and row with meow over the StrList encoding",
                 "BlockIndex.Get modelled by key equality; component loop of findOverlappingBlocks = kcmp on key vectors of "
                 "equal length; table index = first key of every block, one entry per block"],
        assumptions=["no MeowHash collision among the keys of the two tables (Section hypothesis h_inj of C04_get_hashed)",
                     "stored table index agrees with the blocks (C03); all block indices present in the store",
                     "row offsets fit uint32; at most 255 rows per block"],
)
