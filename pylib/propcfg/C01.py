"""Configuration of ./check C01 (see pylib/props.py)."""
CFG = dict(
        coq=["props/C01.vo", "props/Compose4.vo"],
        compose=['Compose_pool_ingest', 'Compose_pool_arrival', 'Compose_pool_blocks', 'Compose_pool_order'],
        tie=["gen/Tie_C01.vo", "gen/Tie_Code_Slices.vo", "gen/Tie_Code_KeyIndices.vo", "gen/Tie_Code_StrListEncode.vo", "gen/Tie_Code_Cols.vo"],
        model_vo=["model/Sorter.vo", "model/SorterSpec.vo", "model/Ingest.vo", "model/IngestSpec.vo"],
        extract="Ex_C01",
        level_text="Theorem C01_lossless: for every header, every key choice among the columns (subset, order, none), all rows "
                   "with one cell per column and cells <= 65535 bytes, every run size, every in-memory sort returning a sorted "
                   "permutation and every arrival order of the saved blocks, the transliterated ingest succeeds, writes the "
                   "table object last, stores the header and key, and the rows read back have strictly ascending keys, are "
                   "input rows cell for cell, cover every input key, and are a permutation of the input when keys are unique; "
                   "C01_overlimit_refused: a longer cell gives an error and no write at all; C01_bad_key_refused: a key naming a "
                   "column twice or an unknown column is refused. Model tied to ingest.IngestTable, "
                   "wrgl commit and wrgl export by differential execution with object read-back.",
        level_note="Theorems are about coq/model/{Sorter,Ingest}.v (hand transliteration); rows are lists of cells: the CSV "
                   "reader/writer (encoding/csv) and the byte codecs (C06) are exercised by the harness, not modelled; "
                   "tie = correspondence harness.",
        rule="witnesses of the repaired defects (empty key, rows > 64KiB, 65535/65536/70000-byte cells, unknown key, key column "
             "named twice, renamed empty header names, duplicate at a block boundary); exhaustive: all tables of <=3 rows x 1 column and <=2 (quick) / <=3 (thorough) rows x 2 "
             "columns over cells {'',a,b} x every key choice x run sizes 1/17/huge; random: 0..800 rows x 1..6 columns, cells "
             "from an alphabet with quotes, delimiters, CR, LF, NUL, non-UTF-8, spaces, key subsets/orders incl. none, empty "
             "and odd header names, duplicate keys inserted at random places and at rows 253..256, delimiters , ; tab |, run "
             "sizes 1/64/4096/huge/random, workers 1/3/4/8/16; big cells; wrgl commit + wrgl export through RootCmd. "
             "raw CSV text stream (hand-formatted lines: cells quoted only when they hold the delimiter, a quote, CR or LF; cells and column names starting/ending with blanks and tabs, blank-only cells, keys differing only by blanks, CRLF or LF line ends, missing final newline; expected rows = the generator's own cells, no trimming), through IngestTable and wrgl commit; a third of the random tables in a random text style; CLI flag stream (wrgl commit / wrgl export through their flag parsers: --delimiter over , ; tab | and the multi-byte runes U+00A7 U+00A6 U+00B7 U+20AC, -p, --mem-limit 1/64/4096/2^30, -n 1/3/4/8/16; export with the default or the same delimiter); the delimiter set of every stream includes the multi-byte runes; EVERY completion order of the blocks for tables of 3 and 4 blocks (6 + 24 permutations, one effective worker per block, each block held until its predecessor in the order is completed) plus random orders of 5 and 6 blocks, judged by rows-out-of-order / schedule-dependent-table / block-index-mismatch; forced worker schedules (gated store: 3..5 blocks x 4/6/8 workers, completion orders 1-2-0, 1-0-3-2, 2-0-1, reverse) compared with the one-worker table; "
             "distinct = distinct case text; non-trivial = at least two rows",
        trusted=["the case holds the CSV after parsing; Run serialises it (own writer, heavy-quoting or raw style) and checks a plain encoding/csv parse (no trimming) reads it back "
                 "unchanged (so \\r\\n inside a cell, which the Go reader turns into \\n, never appears in a case)",
                 "rows whose key occurs with two different contents inside ONE run are compared by key only (the survivor "
                 "depends on Go's unstable sort.Slice); the oracle still requires it to be an input row with that key",
                 "the mock object store is wrapped in a mutex (it is not thread-safe)"],
        assumptions=["sort.Slice returns a sorted permutation (hypothesis sort_ok)",
                     "the CSV is rectangular (encoding/csv rejects ragged records) and fewer than 2^32 rows",
                     "object store and chunk file I/O do not fail"],
)
