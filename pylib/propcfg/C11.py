"""Configuration of ./check C11 (see pylib/props.py)."""
CFG = dict(
        coq=["props/C11.vo"],
        tie=["gen/Tie_C11.vo"],
        model_vo=["model/Graph.vo", "model/Queue.vo", "model/Ancestor.vo"],
        extract="Ex_C11",
        level_text="Theorems over all commit graphs (no size bound) and over EVERY placement/ordering that is a "
                   "permutation (= every assignment of commit times): C11_is_ancestor_correct (IsAncestorOf true iff "
                   "reachable), C11_walk (PopInsertParents sequence = reachable set, duplicate free, never fails on a "
                   "complete history), C11_base_is_input (any arity: an input that is an ancestor of all the others is "
                   "returned), C11_base_found (any arity: never error/nil; 'not found' only when no common ancestor "
                   "exists), C11_base2_common / C11_base2_correct (two inputs: the base is a common ancestor). "
                   "C11_pop_until (PopUntil b returns b iff b is reachable and not yet popped, pops a walk prefix ending at b, "
                   "else EOF with everything popped) and C11_remove_ancestors (remaining queue = original minus ancestors-or-self "
                   "of sums, order kept) for any placement. "
                   "The merge COMMAND's base selection (runMerge via wrgl.VerifRunMerge) is modelled as one all-at-once search "
                   "(merge_base; C11_merge_base_found, C11_merge_base_is_input) and compared on generated histories; a pairwise "
                   "fold is refuted (C11_fold_not_all_at_once_refuted, C11_fold_witness). "
                   "The clause 'base is an ancestor-or-self of every input' is REFUTED for 3 and 4 inputs "
                   "(C11_base3_common_refuted, C11_base4_common_refuted with vm_compute witnesses). Model tied to "
                   "pkg/ref by differential execution (all DAGs <= 5 commits x 4 timestamp regimes x tuples of 2..4 "
                   "commits, random DAGs <= 25 commits, absent commits).",
        level_note="Theorems are about coq/model/{Graph,Queue,Ancestor}.v (hand transliteration of commits_queue.go and "
                   "utils.go, loop for loop incl. the in-place deletion loops and the pre-check); tie = correspondence "
                   "harness (exact pop order when initial times are distinct). The mutex, slice growth policy and "
                   "compaction loop of RemoveAncestors (modelled as an order-preserving filter) are not modelled literally. "
                   "Of runMerge only the base selection is modelled (not the merge itself: C05).",
        rule="fixed witnesses (repaired defect 7e73525, the >=3-input witnesses, arities 0/1, duplicated inputs, unknown "
             "and deleted commits); exhaustive: every DAG with <= 5 commits (node i's parents a subset of size <= 2 of "
             "{0..i-1}) x regimes {topological, reversed, all equal, random skew} x all ordered pairs for IsAncestorOf x "
             "all ordered 2-,3-,4-tuples (with repetition) for SeekCommonAncestor (5-commit graphs sampled in quick, "
             "full in thorough) x root subsets for walks x (root subset, one or two PopUntil targets) x (root subset, 0..3 pops, sums subset) for "
             "RemoveAncestors; merge command (kind 5, each commit carries a one-row table so that the "
             "BASE row of CONFLICTS_*.csv / the fast-forward message names the base): fixed witnesses, the exhaustive criss-cross "
             "scope (2 independent roots, two merge heads in all parent orders, a tail head on either root, 4 regimes, every "
             "order of the heads, a root as head), random histories with several independent common ancestors, a sample of the "
             "<= 5-commit DAGs with head tuples of 2..4, judged against SeekCommonAncestor over all heads at once and the graph "
             "oracle; random DAGs of 6..25 commits in three shapes, 1/8 with a "
             "deleted commit. A case = one graph with a batch of <= 40 queries of one kind; distinct = distinct case "
             "text; non-trivial = graph has >= 2 commits",
        trusted=["commit id = node index (hashes mapped back by the harness; MeowHash never enters Coq); commit time = "
                 "Unix seconds as Z; GetCommit failure = absent association-list entry",
                 "Go's sort.Sort in Reset is modelled by a stable insertion sort; exact order is compared only when "
                 "the initial commits have pairwise distinct times (otherwise sorted sets)"],
        assumptions=["objects.GetCommit is a pure lookup (no concurrent mutation of the store during a walk)",
                     "commit times are whole seconds (objline time encoding)"],
)
