"""Configuration of ./check C02 (see pylib/props.py)."""
CFG = dict(
        coq=["props/C02.vo"],
        tie=["gen/Tie_C02.vo", "gen/Tie_Code_StrListSeek.vo"],
        model_vo=["model/Sorter.vo", "model/SorterSpec.vo", "model/Ingest.vo", "model/IngestSpec.vo"],
        extract="Ex_C02",
        level_text="Theorem C02_canonical: equal header and key and Permutation-equal rows with unique keys give the SAME "
                   "table object and table index under any two run sizes, in-memory sorts and block arrival orders; "
                   "C02_injective / C02_distinct: with injective block and table hashes equal identifiers force equal columns, "
                   "key and rows, so inputs differing in a cell, a column name, the column order or the key get different "
                   "identifiers; C02_no_change: commitIfBranchFileHasChanged creates no commit iff the head's table id equals "
                   "the new one. Model tied to ingest / wrgl commit by comparing table sums for equality and inequality only.",
        level_note="Theorems are about coq/model/{Sorter,Ingest}.v; the identifier is abstract (hash of columns, pk, row count, "
                   "block ids, index ids under explicit injectivity premises); byte encodings are C06's; the delimiter acts "
                   "before the model's input (CSV parsing), the harness varies it for real.",
        rule="per case one logical table with unique keys ingested 6 ways (rows permuted x run sizes huge/1/64/4096/random/1 x "
             "workers 1/3/4/8/16 x delimiters , ; tab | x CSV text styles (heavy quoting / hand-formatted raw / CRLF / no final newline) x producer IngestTable or Sorter.AddRow+IngestTableFromSorter x separate "
             "stores, the first two into one store) => one table sum, no new object on the second ingest; mutants (one cell, one "
             "column name, two columns swapped, key reversed or extended) => another sum; some cases also through wrgl commit "
             "from a branch file (unchanged / rewritten permuted / changed). Tables as in C01 (0..600 rows, 1..6 columns). "
             "two variants of every table of 3+ blocks under a forced worker schedule (gated store); "
             "distinct = distinct case text; non-trivial = at least two rows",
        trusted=["table sums are compared for equality / inequality only; the model compares tables structurally "
                 "(columns, key, row count, blocks)", "the mock object store is wrapped in a mutex"],
        assumptions=["MeowHash / the object encodings are injective on the objects compared (premises Hb, Ht of C02_injective)",
                     "sort.Slice returns a sorted permutation", "wrgl commit is run with --no-cache: the temp-branch cache of ensureTempCommit "
                     "(reuse of <branch>-tmp when its message is the file name, its time is not before the file's mtime and the "
                     "key is equal) is consulted before the table-id comparison and is NOT modelled; with it a file whose content "
                     "changed while its mtime did not advance is reported unchanged (observation recorded, out of scope)"],
)
