"""Configuration of ./check C02 (see pylib/props.py)."""
CFG = dict(
        coq=["props/C02.vo"],
        tie=["gen/Tie_C02.vo", "gen/Tie_Code_StrListSeek.vo"],
        model_vo=["model/Sorter.vo", "model/SorterSpec.vo", "model/Ingest.vo", "model/IngestSpec.vo"],
        extract="Ex_C02",
        level_text="Theorem C02_canonical: equal header and key and Permutation-equal rows with unique keys give the SAME "
                   "table object and table index under any two run sizes, in-memory sorts and block arrival orders; "
                   "C02_injective / C02_distinct: with injective block and table hashes equal identifiers force equal columns, "
                   "key and rows, so inputs differing in a cell, a column name, the column order or the key get different "
                   "identifiers; C02_no_change: commitIfBranchFileHasChanged creates no commit iff the head's table id equals "
                   "the new one; C02_cache_fresh / C02_branch_commit_sound / C02_stale_only_if_old: the cache of branch-file mode (ensureTempCommit) reuses the cached ingestion iff the file's mtime is not after the cached commit's time, a newer file is decided by the id of the table it really holds, and a wrong 'no change' needs mtime <= cached commit time. Model tied to ingest / wrgl commit by comparing table sums for equality and inequality only.",
        level_note="Theorems are about coq/model/{Sorter,Ingest}.v; the identifier is abstract (hash of columns, pk, row count, "
                   "block ids, index ids under explicit injectivity premises); byte encodings are C06's; the delimiter acts "
                   "before the model's input (CSV parsing), the harness varies it for real.",
        rule="per case one logical table with unique keys ingested 6 ways (rows permuted x run sizes huge/1/64/4096/random/1 x "
             "workers 1/3/4/8/16 x delimiters , ; tab | x CSV text styles (heavy quoting / hand-formatted raw / CRLF / no final newline) x producer IngestTable or Sorter.AddRow+IngestTableFromSorter x separate "
             "stores, the first two into one store) => one table sum, no new object on the second ingest; mutants (one cell, one "
             "column name, two columns swapped, key reversed or extended) => another sum; some cases also through wrgl commit (--no-cache) and, every other one, through branch-file mode WITH the cache: after the commit that creates the cached <branch>-tmp commit, 5..8 steps each writing the table / the permuted table / the one-cell mutant, setting the file's mtime with os.Chtimes to cached commit time + {0.2 s, 0.9 s, 0.999 s, 1 ms, 1 s, 2 s} (judged) or + {0, -5 s} (observed only) and running wrgl commit BRANCH MSG or commit --all; also through wrgl commit "
             "from a branch file (unchanged / rewritten permuted / changed). Tables as in C01 (0..600 rows, 1..6 columns). "
             "three variants of every table of 3 or 4 blocks each under the next completion order of its blocks, so that every permutation (6 + 24) is visited (witness tables of 600..980 rows), two variants of larger tables under a forced worker schedule (gated store); "
             "distinct = distinct case text; non-trivial = at least two rows",
        trusted=["table sums are compared for equality / inequality only; the model compares tables structurally "
                 "(columns, key, row count, blocks)", "the mock object store is wrapped in a mutex"],
        assumptions=["MeowHash / the object encodings are injective on the objects compared (premises Hb, Ht of C02_injective)",
                     "sort.Slice returns a sorted permutation", "the cache of branch-file mode is modelled on its time logic only (file name and key constant); a file whose content changed while "
                     "its mtime is not after the cached commit's time is reported unchanged by design of the cache (recorded observation): such "
                     "steps are compared with the model but not judged by the oracle"],
)
