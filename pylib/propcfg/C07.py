"""Configuration of ./check C07 (see pylib/props.py)."""
CFG = dict(
        coq=["props/C07.vo", "props/Compose.vo"],
        compose=['Compose_ingest_src', 'Compose_ingest_tables', 'Compose_shape', 'Compose_ingest_exact', 'Compose_ingest_transfer', 'Compose_ingested_table'],
        tie=["gen/Tie_C07.vo"],
        model_vo=["model/Transfer.vo", "model/TransferSpec.vo"],
        extract="Ex_C07",
        level_text="Theorems over the transliterated ObjectSender/ObjectReceiver (coq/model/Transfer.v), for ALL sources, "
                   "commit lists, tablesToSend, common sets, destinations (ANY subset of objects of ANY kind: table objects without "
                   "indices/blocks, indices without tables, ...; no well-formedness of the destination is assumed), object sizes and size limits: C07_exact (the "
                   "WriteObjects/Receive loop terminates without rejection and the destination ends with exactly the sent "
                   "commits/tables/blocks, identical under identical ids, indices/profile rebuilt so that every sent table is usable, frame), "
                   "C07_received_usable (every table object of an accepted sequence is usable at the end whatever the store held before), C07_truncated_object_rejected (a packfile cut strictly inside an object is rejected in the state "
                   "before that object), C07_order, "
                   "C07_parent_gate and C07_table_gate (invariants Closed / TablesWF preserved by every Receive of ARBITRARY "
                   "object sequences, also when it rejects), C07_split_independent (final state independent of the limit), "
                   "C07_shallow_iff/_reject/_silent (exact characterisation when a declared-common commit is not full at the "
                   "destination).  Model tied to pkg/api/utils by differential execution through the real packfile "
                   "writer/reader between two in-memory stores, tables built by the real ingest.",
        level_note="Object ids are abstract content identities (MeowHash injectivity and s2 decompress-after-compress are "
                   "built into the abstraction: an id present in two stores names the same content - hypothesis `compat`); "
                   "packfile framing, table/commit/block byte codecs are C06/C17/C18, the content of block indices / table "
                   "index / profile is C03 - here they are named by the table/block they are derived from and their bytes are "
                   "compared source-vs-destination by the Go oracle (raw store.Get equality, re-indexing, table index = key cells of each "
                   "block's first row, diff.DiffTables against the original and against itself empty).  Byte positions of a truncation inside an object are not in the model (packfiles are object lists: a cut "
                   "inside object j = the first j objects followed by something undecodable; the reader's error for every byte position is the "
                   "oracle's clause truncated-object-accepted / truncated-object-stored / done-but-missing).  Commit author zones and the "
                   "column layout / key position of tables are content the model does not interpret (oracle + id comparison only).",
        rule="fixed witnesses (DESIGN probe 2 commits/3 blocks at all 5 limits and at every limit equal to / one byte around each object boundary of its stream, identical tables on several commits, same rows "
             "under two pks, empty and 255-row tables, full/shallow common commits, bad order, source lacking a table/block, "
             "depth-limited tables, destinations pre-populated per object kind (table object alone, +blocks, stale index/profile, single "
             "block indices, indices without table), tables whose key is not the leading column / in another order than the header "
             "(multi-block), a 12-commit chain over author zones incl. -0330 -0930 -0230 -0001 +1245 +1400 -1200 -2359, 37 hostile edits "
             "incl. the witnesses of fixes 2b449a8 and 427cc6f and pk index == number of columns); transit damage: the probe at limits 1 / 2500 / 2^40 with each packfile "
             "truncated before and strictly inside each of its objects (inside the type/length header, right after it, mid-body, one byte "
             "before the end; quick tier: mid-body and boundary only at limit 1), 1/3 of the plain random transfers repeated with one "
             "packfile truncated at a random such position; exhaustive: every subset of the 7 "
             "objects of a two-block table at the destination (128; x limit 1 and x stale content in thorough); every DAG on "
             "<=3 commits (<=2 parents) x 3 tables (two sharing their first block) x limits {1,huge} (quick; all 5 in thorough) x "
             "{empty destination, first commit common and full}; random: DAG fragments of 1..12 commits with merges, 1..5 tables "
             "from a pool of 15 (multi-block, shared first block, identical tables, 4 column-layout/key variants), half of the commits in a "
             "random non-UTC zone, commit list/commons/tables computed by "
             "apiutils.ClosedSetsFinder (40%, depth 0..2) or hand-picked, limit in {1,17,200,4096,2^40,random} or (25%) exactly on / one byte around an object boundary of the stream, 6 destination "
             "classes (commons with tables / + bare blocks / + other tables / + part of the sent commits / shallow commons / every "
             "non-common table present as a random subset of its objects kind by kind), "
             "7% shuffled lists, 14% source drops, 25% hostile variants (drop/swap/tamper (5 table kinds)/duplicate objects, re-framed with "
             "the real PackfileWriter). distinct = distinct case text; non-trivial = at least one commit to send",
        trusted=["harness numbering by content: real sums are mapped to (commit index, first table index with that content, "
                 "chunk number, (pk variant, chunk)) built while ingesting the source; object sizes recorded in the case are "
                 "re-measured by Run (class case-size-mismatch)",
                 "block shape function of the model instance: every generated block has rows of 3 cells"],
        assumptions=["MeowHash: no collision among the objects of a run (same id => same content, hypothesis `compat`)",
                     "s2.Decode(s2.EncodeBetter(x)) = x; objmock store Set/Get are exact",
                     "fewer than 2^64 bytes per packfile (size counter is uint64)"],
)
