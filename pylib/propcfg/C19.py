"""Configuration of ./check C19 (see pylib/props.py)."""
CFG = dict(
        coq=["props/C19.vo"],
        tie=["gen/Tie_C19.vo", "gen/Tie_Code_Slices.vo", "gen/Tie_Code_StrListSeek.vo", "gen/Tie_Code_Cols.vo"],
        model_vo=["model/Sorter.vo", "model/SorterSpec.vo"],
        extract="Ex_C19",
        level_text="Theorems C19_blocks / C19_rows: for every row list, every run size (and, in the _any_partition forms, every "
                   "family of sorted runs whose union is the input), every removed-column set disjoint from the key and every "
                   "in-memory sort returning a sorted permutation, both outputs of the transliterated sorter are the sorted "
                   "key-deduplication of the input (keys strictly ascending, one row per distinct key, each an input row with "
                   "the removed columns dropped and the key intact); C19_outputs_agree (block for block); C19_cleanup (every "
                   "AddRow/Reset/Close history); C19_reuse_is_fresh + C19_reuse_blocks/_rows (one sorter reused for several tables with "
                   "Reset, SetColumns and PK changing between uses gives, for every use, the outputs of a fresh sorter = the sorted "
                   "key-deduplication of that use's table); model tied to pkg/sorter by differential execution of SortedBlocks and "
                   "SortedRows (exhaustive small scope with every partition + random + histories, temp-dir listing).",
        level_note="Theorems are about coq/model/Sorter.v (hand transliteration of AddRow, the two merge loops, pkIsDifferent, pkIndices recomputed from the current Columns, "
                   "Close, Reset); rows are lists of cells (byte encodings are C06); tie = correspondence harness; "
                   "the in-memory sort is a hypothesis (sorted permutation), inhabited by the extracted insertion sort.",
        rule="witnesses of the repaired defects; exhaustive: all sequences of <=3 (quick) / <=4 (thorough) rows over a 2-column "
             "key in {0,1,2}^2 x every partition into runs (padding column forces the spills) x key order (0,1)/(1,0) x padding "
             "column removed or not; random: 0..800 rows (block-boundary sizes 254..256, 509..511), 1..5 columns, every key "
             "subset/order incl. none, tie-heavy key alphabets incl. empty/NUL/0xff cells, duplicate keys inserted at random "
             "positions, run sizes 1/64/4096/huge/random, removed non-key columns; 65535/65536/70000-byte cells; AddRow/Reset/"
             "Close histories; one sorter reused for 2..4 tables (Reset, SetColumns with 1..4 columns, key none/subset changing between uses, "
             "0..270 rows, removed columns, either output, all run sizes; witnesses: key-less 2 columns then key-less 3 columns agreeing on "
             "the first two, then keyed, then narrower). distinct = distinct case text; non-trivial = at least two rows (or a history)",
        trusted=["row = list of cells, block = list of rows (StrList/block byte codecs are C06's obligation; the harness decodes "
                 "blocks with objects.ReadBlockFrom)",
                 "rows whose key occurs with two different contents inside ONE run are compared by key only (survivor depends "
                 "on Go's unstable sort.Slice); the oracle still requires the survivor to be one of the input rows with that key",
                 "chunk files observed through TMPDIR listing"],
        assumptions=["sort.Slice returns a permutation of its input sorted w.r.t. StringSliceIsLess (hypothesis sort_ok)",
                     "rows have exactly len(Columns) cells and key/removed indices are columns (otherwise Go panics)",
                     "chunk file I/O does not fail; the uint64 size counter does not wrap"],
)
