"""Configuration of ./check C14 (see pylib/props.py)."""
CFG = dict(
        coq=["props/C14.vo", "props/Compose3.vo"],
        compose=['Compose_refsql_txn', 'Compose_refsql_crash', 'Compose_refsql_setwithlog', 'Compose_refsql_txlog'],
        tie=["gen/Tie_C14.vo"],
        model_vo=["model/Txn.vo"],
        extract="Ex_C14",
        level_text="Theorems over the write-list model of transaction.Commit/Discard (every number of staged branches, new or "
                   "existing, every enumeration order that is a permutation, every cut point n): C14_all_or_completable / "
                   "C14_rerun_completes / C14_any_crash_history (after any number of interrupted commits a re-run reaches "
                   "exactly the all-branches outcome, no branch advanced twice), C14_outcome_shape (one new commit per branch, "
                   "staged table, parent = pre-transaction head, one reflog entry with the txid, status committed), "
                   "C14_branch_consistent / C14_logged (every intermediate branch is unmoved or landed-and-logged), C14_once "
                   "(committed transaction: Commit and Discard fail with no write), C14_discard_frame / C14_discard_complete; "
                   "pre-repair code refuted (C14_once_v0_refuted, C14_completable_v0_refuted, C14_discard_v0_refuted). Model "
                   "tied to pkg/transaction by differential execution over real objmock + SQLite stores behind "
                   "fault-injecting wrappers (every store call) and SQLite triggers (every statement of SetWithLog), plus an "
                   "independent Go oracle; the COMMANDS `wrgl transaction commit` / `discard` (wrgl.RootCmd() on a real badger + sqlite "
                   "repository directory) are a second entry point of the same cases with SQL-statement faults at every ref write, the "
                   "status flip and the deletes of Discard (C14_statement_fault, C14_statement_fault_discard).",
        level_note="partial by design: atomicity of one object-store Set and one SQL transaction, and no other writer between "
                   "the interrupted Commit and its re-run, are assumptions; theorems are about coq/model/Txn.v (hand "
                   "transliteration, content-addressed commits as values); failing READS are covered by the oracle on the "
                   "implementation and by the model only through 'state = a write prefix' (run_read_fault). D1 (Compose3): tx_log_new reads GetTransactionLogs as the NEWEST entry with the txid; the Go "
                   "query has no ORDER BY: checked on the real store (hist 4: two entries of the txid on one ref, oracle class "
                   "txlogs-not-newest), not proved. No transaction-GC case in this slice (C12 owns the gc path).",
        rule="exhaustive: 1 branch x {4 histories x late commit x other transaction}; 2 branches over a 6-profile alphabet "
             "(new/existing/landed-by-earlier-transaction/late/other-tx/bystander; same table on two branches); 3 and 4 "
             "branches random profiles; table-identity patterns (staged table == own head's table / another branch's head table "
             "/ another branch's staged table; new branches staging an existing table); for each configuration EVERY mutating-call position n of Commit (0..2k+1) as crash "
             "(mode 0) [+ single failure, mode 1], followed by re-run, double Commit, Discard-after-commit; Discard of a "
             "partially landed transaction; every position of Discard (0..k+1) then re-run; pairs of crashes (n1,n2) then "
             "completion; every store call of any kind incl. reads (mode 2); for every branch as victim, ONE SQL statement inside "
             "SetWithLog failing (reflogs insert / refs upsert, injected by a SQLite trigger below the ref.Store method), alone, "
             "after a crash, and twice, then re-run; the status-flip UPDATE and each DELETE of Discard failing likewise; batch 'relog': "
             "a ref carrying two reflog entries with the transaction id before Commit; batch 'cli': the commands on a repository "
             "directory (>= 2 staged branches; quick 2 configurations, thorough ~45) with every SQL-statement fault then re-run "
             "through the command; batch 'writer': an ORDINARY commit lands on a staged branch between an interrupted Commit and its "
             "re-run (after a failed status flip / a crash before it = all landed; none landed; single staged branch at every cut), "
             "package level and through the commands, oracle class tx-commit-duplicated (C14_landed_branch_untouched). distinct = distinct case text; non-trivial = "
             ">=1 staged branch, transaction exists, >=2 ops",
        trusted=["harness/c14.go fault-injecting ref.Store/objects.Store wrappers (fail the chosen call without touching the "
                 "underlying store); commit identity projected to (table id, #transaction prefixes, parent chain); which "
                 "branches moved after a partial run is map-order dependent: compared as counts, exact state compared when "
                 "none/all moved; Go oracle checks every branch in every intermediate state"],
        assumptions=["one objects.Store.Set and one SQL transaction (SetWithLog, DeleteTransaction) are atomic",
                     "no other writer moves a staged branch between an interrupted Commit and its re-run",
                     "staged commit objects exist in the object store (staged through SaveCommit + SaveTransactionRef)"],
)
