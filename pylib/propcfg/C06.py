"""Configuration of ./check C06 (see pylib/props.py)."""
CFG = dict(
        coq=["props/C06.vo"],
        model_vo=["model/CodecRun.vo"],
        extract="Ex_C06",
        level_text="TODO",
        level_note="TODO",
        rule="TODO",
        trusted=[],
        assumptions=[],
)
