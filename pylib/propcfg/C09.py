"""Configuration of ./check C09 (see pylib/props.py)."""
CFG = dict(
        coq=["props/C09.vo", "props/Compose.vo"],
        compose=['Compose_srv_depth', 'Compose_fetch_depth', 'Compose_tables_depth', 'Compose_depth_two', 'Compose_serve', 'Compose_fetch_delivers', 'Compose_fetch_closed', 'Compose_fetch_objects'],
        tie=["gen/Tie_C09.vo"],
        model_vo=["model/Session.vo", "model/RefUpdate.vo", "gen/Extracted.vo"],
        extract="Ex_C09",
        level_text="PARTIAL by nature (the server lives in another repository): theorems about the client sessions "
                   "(UploadPackSession, ReceivePackSession, ObjectReceiver gate, fetch.Fetch, push) composed with a "
                   "reference server model. Full strength, for ARBITRARY packfiles / any server / every k, packfile size, "
                   "depth, refspec set and force flag: a session that reports success has stored every wanted commit with "
                   "all its ancestors and the store stays Closed (C09_receive_gate, C09_fetch_objects_closed); after "
                   "fetch.Fetch every created or moved ref points at a stored commit whose whole history is stored "
                   "(C09_fetch_closed); the same on the remote after a push (C09_push_closed, RefsResolve + Closed "
                   "preserved); refs are written after the last object write (C09_refs_after_objects + "
                   "C09_fetch_skel_tie on the call order re-read from fetch.Fetch); under ANY single lost response "
                   "(connection abort or HTTP/2 reset with fetch's retry) the same closure holds and an unfinished session "
                   "writes no ref (C09_fetch_faults, C09_push_faults); a repeated fetch wants nothing and "
                   "writes nothing (C09_idempotent_objects / _refs); session bookkeeping (C09_pop_haves, C09_negotiate). "
                   "Depth clause only PARTIAL (C09_fetch_depth_partial / C09_tables_partial under the named premise "
                   "SrvDepth = C08_depth + C07) with two refutation witnesses = the two known findings "
                   "(C09_depth_want_order_refuted, C09_depth_followed_tag_refuted).",
        level_note="The reference server (harness/c09_server.go: GET /refs/, upload-pack, receive-pack over the repository's "
                   "own ClosedSetsFinder / ObjectSender / ObjectReceiver) is trusted; HTTP, gzip, cookies, retry/backoff are "
                   "exercised by the harness but not modelled. The Coq server side is a specification-level model (it "
                   "selects tables by distance from ANY want), so the correspondence compares end states only: number of "
                   "round trips and packfiles are observed and bounded by the oracle, not compared. 'Objects identical on "
                   "both sides' is by construction in the model (ids are contents) and checked byte for byte by the oracle. "
                   "Random receivers are generated full; shallow senders/receivers are generated on linear chains "
                   "(with merges the set of tables that arrive at a shallow receiver depends on which haves were "
                   "acknowledged). Persistent faults: the watchdog (request count) is an oracle-only clause; the model "
                   "gives the end state (nothing/partial objects stored, no ref written, error). A push from a shallow "
                   "clone whose source remote is gone PANICS in the code as it is (NewShallowCommitError); the model "
                   "reproduces it as outcome 2, the refusal itself is C09_push_refuses_shallow.",
        rule="witnesses: depth x want-order (parent/child refs at depth 1,2,0; chain of 5 commits with a ref on each = "
             "deterministic witness of the known finding; two tips sharing a near/far ancestor), max packfile size 1 with "
             "table batches {0,1,256} x k {256,1,2} (fetch) and pack.maxFileSize=1 (push), push to an empty remote with a "
             "tag; TRANSPORT FAULTS on a 4-commit chain (receiver empty / holding a prefix; packfile size 1 / default; table "
             "batches 0/1): one response of the exchange lost entirely after the server processed the request - the answer "
             "to GET /refs/, the first JSON answer, the answer of the packfile exchange carrying the j-th commit for every j "
             "(and one past the end) - as a connection abort (panic(http.ErrAbortHandler)) and as an HTTP/2 stream reset "
             "(TLS test server; fetch.Fetch retries), for fetch (96) and push (48); SECOND FETCH AFTER THE REMOTE MOVED REFS (40 quick / 60 thorough): the local side already holds tags and "
             "remote-tracking branches; the remote moved them to commits reachable from no other advertised ref (side "
             "commit, unrelated root), to a descendant, backwards, or not at all; x '+' on the heads refspec x '+' on the "
             "tags refspec x global --force (existing-tag updates included) x depth {0,1}: whatever is accepted or "
             "rejected, every moved ref has its whole history locally; PERSISTENT FAULTS (16): every packfile answer of upload-pack cut inside its last object / "
             "lost by an HTTP/2 reset on EVERY attempt: the fetch must give up with an error after at most 5 upload-pack "
             "exchanges (maxFetchAttempts; the reference server also has an 80-request watchdog) and write no ref; SHALLOW "
             "repositories: push from a local side that lacks the tables of its older commits (last 1/2 tables kept) to a "
             "remote holding nothing / c0 / c0..c1, the remote-tracking ref the history came through still there / renamed "
             "/ gone, packfile size 1/default (36): refused, or everything that travels carries its table; fetch into a "
             "shallow local side of a 7-commit chain whose new commits REUSE earlier tables (reverts), tip x kept tables x "
             "depth {0,1,2} x k {256,1,2} x table batch {0,1,256} x packfile size (432, quick keeps ~1/4): every commit of "
             "a moved ref within the requested depth has its table; BATCH BOUNDARIES: chains transferring "
             "n = 257 (quick) / 255, 256, 257, 513 (thorough) commits each with its own 1-row table, every 7th table "
             "already on the receiver, push (client offers tables in batches of 256) and fetch (server batches of 256), and "
             "n local-only commits unknown to the server so that popHaves needs several 256-have round trips; "
             "random (220 quick / 5000 thorough): a common random history of 0..5 commits (merges, 5 fixture tables "
             "incl. a 300-row multi-block one) then diverged {equal, local ahead, local behind, diverged, unrelated}, 4 "
             "timestamp regimes, 1-4 refs per side; fetch: glob heads spec (+ tags spec), per-refspec and global force, "
             "depth {0,0,1,2}, k {256 via fetch.Fetch; 1,2,5 via UploadPackSession then fetch.Fetch}, server max packfile "
             "size {default,1,300}, table batch {0,1,256}; push: 1-4 items with force flags, pack.maxFileSize "
             "{default,1,300}. Every case is run twice (idempotence: zero writes on recording stores, zero packfiles). "
             "distinct = distinct case text; all cases non-trivial",
        trusted=["reference server harness/c09_server.go incl. its ref update rule R1-R4 and the 'report once, keep the "
                 "session open' behaviour of receive-pack (see the header of that file and of props/C09.v)",
                 "fault layer of the reference server (one response lost after the request was processed; a request naming "
                 "wants while a session exists starts a new session)",
                 "fixture tables: a table number stands for the table object, its blocks, block indices and table index "
                 "(the oracle checks all of them are present and byte-identical to the sender's)",
                 "for k != 256 the harness runs apiclient.UploadPackSession itself and then fetch.Fetch (which finds "
                 "nothing wanted and saves the refs): fetch.Fetch offers no way to set haves-per-round-trip"],
        assumptions=["SrvDepth (C08_depth + C07): the stream carries the table of every new commit within depth of a want - "
                     "premise of the depth theorems only",
                     "the sender side is full (every commit reachable from its refs has its table): ensureWantsAreReachable "
                     "/ NewShallowCommitError refuse otherwise",
                     "hash collisions do not occur (ids are contents in the model)",
                     "one client at a time"],
)
