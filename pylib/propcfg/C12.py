"""Configuration of ./check C12 (see pylib/props.py)."""
CFG = dict(
        coq=["props/C12.vo", "props/Compose3.vo"],
        compose=['Compose_refsql_prune'],
        tie=["gen/Tie_C12.vo", "gen/Tie_Code_ChildrenFirst.vo"],
        model_vo=["model/PruneRepo.vo", "model/Prune.vo"],
        extract="Ex_C12",
        level_text="Theorems over ALL repository states (any commit DAG, shallow commits, shared blocks, dangling indices, any ref "
                   "set, any queue discipline) about the transliterated prune (coq/model/Prune.v: ref walk with the commits queue, "
                   "sort.Search slot lookups with the equality check, pruneTables, childrenFirst, sweep order): C12_total (never "
                   "panics/errs when reachable commits have their parents), C12_safe / C12_prefix_safe (after prune and at EVERY crash "
                   "prefix of the delete list each reachable commit keeps commit, table, index, profile, blocks, block indices; refs "
                   "resolve; every stored commit keeps its parents), C12_complete (what is deleted, incl. the early return), "
                   "C12_gc_safe / C12_gc_complete (gc = drop the refs of expired transactions, then prune: every other ref and all it reaches is kept), "
                   "C12_idempotent, C12_rerun(_clean) (re-run after any crash reaches the uninterrupted result up to a torn "
                   "table/index/profile triple); pre-fix variants refuted (C12_unchecked_refuted, C12_key_order_refuted). Model tied "
                   "to pkg/prune by differential execution incl. the exact order of store deletes and injected Delete failures, on the map-backed "
                   "store AND on the real badger store (prune.Prune, `wrgl prune`, `wrgl gc`), and gc as gc_cmd.go runs it under several process time zones.",
        level_note="Theorems are about coq/model/Prune.v (hand transliteration); tie = correspondence harness (prune.Prune on a "
                   "recording objects.Store, `wrgl prune`, `wrgl gc`) + independent DFS oracle. Completeness/idempotence/re-run assume "
                   "Acyclic (no parent cycle: content addressing). Behaviours outside the property text are theorems, not findings: "
                   "store engine and process time zone are runtime, not logic: the badger batch and the time-zone batch are judged by the oracle and "
                   "compared with the zone-/engine-independent model (the model has no clock: transaction ages are case data). early return leaves orphan tables/blocks when no commit is removable (C12_early_return_leaves_orphans); a crash inside "
                   "a table/index/profile triple leaks the index/profile (C12_torn_triple_leak).",
        rule="fixed witnesses (fixed defects 98a13da shallow+orphan with the absent table id before/between/after, b7554dd orphan chains "
             "crashed at every delete, early return with orphan table, torn triple, missing parent, dangling ref, shared tables, merges, "
             "all four ref kinds; every ref-name shape - flat and multi-component heads/a/b, tags/rel/1/t, remotes/origin/feature/x, remotes/my/remote/x, txs/<uuid>/feature/x, txs/<uuid>/a/b/c, transactions with and without a row in the ref store - as the ONLY ref keeping a commit alive, also through `wrgl prune`/`wrgl gc`); exhaustive: all DAGs of 2 (quick; sample of 3) / 3 (thorough) commits x table in {t1,t2,shallow} x ref "
             "subsets, ops prune,prune, plus every crash prefix for a sample; random: 3..25 commits, 1..8 tables sharing blocks, leftovers, "
             "shallow commits, refs of all kinds, op sequences of prune / delete ref / set ref / crash-prune k; ~8% tables built by the real "
             "ingest; a few `wrgl prune` / `wrgl gc` runs on badger+sqlite repos; badger: repositories of 30..130 commits with one table (index, profile) each so that > 100 keys follow every "
             "scanned prefix (beyond badger's iterator prefetch), pruned through prune.Prune on the real badger store with delete trace and crash prefixes, "
             "`wrgl prune`, `wrgl gc` (quick 2, thorough 26); gczone: transaction.GarbageCollect + prune.Prune exactly as gc_cmd.go (and `wrgl gc` with "
             "transactionTTL in the repo config) with time.Local = UTC-8 / UTC / UTC+9 (thorough also -3:30, +5:45, -12, +14), TTLs 1h, 24h, |offset|-1h, |offset|+1h, "
             "open transactions aged 0 .. TTL+15h on both sides of the TTL, in about half of the cases opened by a process in ANOTHER zone than the gc process (one hour apart = DST change, half-hour zones +5:30/-3:30/+5:45/-9:30, 12h apart; fixed 9aaa980), pending commits staged under nested txs/ names. distinct = distinct case text; non-trivial = >= 3 "
             "commits and at least one prune op that deletes something",
        trusted=["ids are abstract small numbers mapped to real 16-byte sums by the harness; the model sorts by id, the code by sum: "
                 "per-kind delete sets and the kind sequence are compared, for crash cases the generator picks object bytes whose sum order "
                 "equals the id order; refs: every ref of the case is a root whatever its name (the oracle's roots are the harness's own ref map, cross-checked against ListAllRefs of the store before and after each prune); which objects are stored is decided by point lookups of every key "
                 "of the case, the store's key listing (GetAll*Keys) is compared with that (class c12-key-listing-wrong)",
                 "objects are well-formed (GetCommit/GetTable of stored keys decode); one store.Delete is atomic"],
        assumptions=["Acyclic: the parent relation of stored commits has no cycle (hash-based ids)",
                     "stored commit/table objects decode (hostile bytes are C17's subject)",
                     "atomicity of a single badger Delete"],
)
