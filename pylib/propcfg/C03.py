"""Configuration of ./check C03 (see pylib/props.py)."""
CFG = dict(
        coq=["props/C03.vo", "props/Compose4.vo"],
        compose=['Compose_pool_ingest_wf', 'Compose_pool_sorter_wf', 'Compose_pool_rowscount'],
        tie=["gen/Tie_C03.vo", "gen/Tie_Code_RowAddr.vo"],
        model_vo=["model/Sorter.vo", "model/SorterSpec.vo", "model/Ingest.vo", "model/IngestSpec.vo"],
        extract="Ex_C03",
        level_text="Theorems C03_ingest_wf and C03_sorter_any_rows_wf: every table produced by the transliterated ingest (any "
                   "header, key, rows, run size, in-memory sort, block arrival order) and by IngestTableFromSorter over ANY "
                   "family of sorted runs satisfies WF_table (row count, block sizes 255.../1..255, keys strictly increasing, "
                   "block index = index of exactly the block's rows, table index = first key per block, as many indices as "
                   "blocks); C03_block_index_exact (BlockIndex.Get answers exactly for the block's rows, hash injective); "
                   "C03_diagnose_clean (model of diagnoseCommit reports nothing on a sound table); C03_row_addr(_table). "
                   "Model tied to pkg/ingest, objects.BlockIndex, doctor by differential execution with full read-back.",
        level_note="Theorems are about coq/model/{Sorter,Ingest}.v (hand transliteration). Producers covered BY THEOREM: ingest "
                   "(C03_ingest_wf) and any rows handed to a sorter then IngestTableFromSorter/Blocks (C03_sorter_any_rows_wf, the "
                   "path shared by merge commit and doctor re-ingest). Covered BY CORRESPONDENCE with the same oracle and the same "
                   "model path: merge commit (real merge.Merger + the steps of commitMergeResult; the model ingests the three-way "
                   "merge computed by the harness), doctor re-ingest (doctor.Diagnose/Resolve on a hand-written damaged table), "
                   "receipt over the wire (ObjectSender -> packfile -> ObjectReceiver: correspondence only, the receiver is not "
                   "modelled). Byte-level agreement of IndexBlock/IndexBlockFromBytes is checked by running ingest.IndexTable and "
                   "re-indexing every block, not modelled.",
        rule="witnesses of the repaired defects (table-index key from a discarded duplicate, first row all-empty diagnosed as "
             "duplicate, empty key); sizes N*255+r for N in 0..3(4) and r in {0,1,127,254} shuffled, with duplicates of the rows "
             "around every block boundary prepended/appended, run sizes 1/64/4096/huge, workers 1/3/4/8/16; all C01 random "
             "configurations, one third through Sorter.AddRow + Inserter.IngestTableFromSorter (cells with CRLF allowed); "
             "wrgl commit + doctor over the repository. EVERY completion order of 3 and 4 blocks (6 + 24 permutations) and random orders of 5 and 6 blocks as in C01; forced worker schedules as in C01; one table of 1025 blocks (261121 rows; thorough also 1023 and 1024 blocks) read back through objects.GetTable with counts only; "
             "merge results (kind 4): base + 2 branches of 6..600 rows over (a,b,c) key a with non-conflicting edits (modified/removed/"
             "added by one branch or identically by both, forced at keys 253..256 and 509..511), workers 1/3/4/6/8 incl. forced "
             "schedules; doctor re-ingest (kind 5): sorted tables of 3..520 rows with rows stored twice (also across the 255/510 block "
             "boundaries) and keys stored twice with different contents, keyed and keyless; receipt (kind 6): C01 random tables sent "
             "with max packfile size default/1/4096/1MiB into an empty store. "
             "distinct = distinct case text; non-trivial = at least two rows",
        trusted=["hashes never enter the model: the harness recomputes MeowHash of the StrList encoding of every key/row and "
                 "maps each index entry back to the row it denotes",
                 "rows whose key occurs with two different contents inside ONE run are compared by key only (unstable sort)",
                 "the mock object store is wrapped in a mutex"],
        assumptions=["sort.Slice / sort.Sort return sorted permutations", "MeowHash has no collision among the keys of one block",
                     "fewer than 2^32 rows; store I/O does not fail"],
)
