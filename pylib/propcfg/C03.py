"""Configuration of ./check C03 (see pylib/props.py)."""
CFG = dict(
        coq=["props/C03.vo"],
        tie=["gen/Tie_C03.vo"],
        model_vo=["model/Sorter.vo", "model/SorterSpec.vo", "model/Ingest.vo", "model/IngestSpec.vo"],
        extract="Ex_C03",
        level_text="Theorems C03_ingest_wf and C03_sorter_any_rows_wf: every table produced by the transliterated ingest (any "
                   "header, key, rows, run size, in-memory sort, block arrival order) and by IngestTableFromSorter over ANY "
                   "family of sorted runs satisfies WF_table (row count, block sizes 255.../1..255, keys strictly increasing, "
                   "block index = index of exactly the block's rows, table index = first key per block, as many indices as "
                   "blocks); C03_block_index_exact (BlockIndex.Get answers exactly for the block's rows, hash injective); "
                   "C03_diagnose_clean (model of diagnoseCommit reports nothing on a sound table); C03_row_addr(_table). "
                   "Model tied to pkg/ingest, objects.BlockIndex, doctor by differential execution with full read-back.",
        level_note="Theorems are about coq/model/{Sorter,Ingest}.v (hand transliteration); producers modelled: ingest and the "
                   "sorter path shared by merge/doctor re-ingest; ObjectReceiver (C07 harness) and the byte-level agreement "
                   "of IndexBlock/IndexBlockFromBytes (checked here by running ingest.IndexTable) are not modelled.",
        rule="witnesses of the repaired defects (table-index key from a discarded duplicate, first row all-empty diagnosed as "
             "duplicate, empty key); sizes N*255+r for N in 0..3(4) and r in {0,1,127,254} shuffled, with duplicates of the rows "
             "around every block boundary prepended/appended, run sizes 1/64/4096/huge, workers 1/3/4/8/16; all C01 random "
             "configurations, one third through Sorter.AddRow + Inserter.IngestTableFromSorter (cells with CRLF allowed); "
             "wrgl commit + doctor over the repository. forced worker schedules as in C01; one table of 1025 blocks (261121 rows; thorough also 1023 and 1024 blocks) read back through objects.GetTable with counts only; distinct = distinct case text; non-trivial = at least two rows",
        trusted=["hashes never enter the model: the harness recomputes MeowHash of the StrList encoding of every key/row and "
                 "maps each index entry back to the row it denotes",
                 "rows whose key occurs with two different contents inside ONE run are compared by key only (unstable sort)",
                 "the mock object store is wrapped in a mutex"],
        assumptions=["sort.Slice / sort.Sort return sorted permutations", "MeowHash has no collision among the keys of one block",
                     "fewer than 2^32 rows; store I/O does not fail"],
)
