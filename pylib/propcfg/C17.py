"""Configuration of ./check C17 (see pylib/props.py)."""
CFG = dict(
        coq=["props/C17.vo", "props/Compose2.vo"],
        compose=['Compose_codec_'],
        tie=["gen/Tie_C17.vo", "gen/Tie_Code_Validate.vo"],
        model_vo=["model/DecRun.vo"],
        extract="Ex_C17",
        level_text="For every entry point (ValidateStrListBytes, ValidateBlockBytes, StrListDecoder.Read/ReadBytes/Decode-on-"
                   "validated, ReadBlockFrom, Table.ReadFrom, BlockIndex.ReadFrom, Commit.ReadFrom, TableProfile.ReadFrom, "
                   "decodeObjTypeAndLen, ReadObject, whole packfile, ReadPktLine, uint/float lists, and the reuse-mode New{StrList,UintList,FloatList}Decoder(true) variants) theorems C17_* : on EVERY "
                   "byte string the transliterated decoder returns a value or an error - never the model's Panic outcome, "
                   "which every Go index/slice/BigEndian read can produce -, never exhausts a loop fuel of |b|+2, and allocates "
                   "<= c*|b| + k on the model's allocation meter with explicit (c, k) per decoder; C17_receive_total: "
                   "Receive never panics / never exhausts its fuel; C17_reject_clean: "
                   "Receive keeps the store closed (blocks valid, tables with all blocks/indices/table index/profile, commits "
                   "with parents) for every packfile, every outcome and every store fault (n-th Set, every Set on a key prefix, n-th Get failing); the pre-fix variants are refuted "
                   "(C17_unchecked_refuted {0,0}; C17_alloc_uncapped_refuted 8 bytes -> 96 GiB); C17_alloc_s2_refuted is the "
                   "known finding (s2.Decode allocates the announced length). Model tied to the Go code by differential "
                   "execution on mutated encodings under recover(), an allocation ceiling and a timeout.",
        level_note="encoding/json and net/http are not modelled: the json.Unmarshal and client-call batches are oracle-only (the model answers the constant observation \"returned\"); Hex.UnmarshalJSON itself is modelled and proved. PARTIAL by design for allocation: the bound is a theorem about the model's meter (charging conventions in "
                   "lib/GoSlice.v), tied to the real allocator only through the harness ceiling 64*len+1MiB; Receive's "
                   "allocation is not bounded (s2 header, known finding; store contents). Receive is modelled over abstract "
                   "hash / s2 / block-index-sum functions tabulated by the harness (its no-panic and closure properties are "
                   "theorems for every such function; dprof profiling and IndexBlock are not modelled beyond the shape checks "
                   "IndexTable performs before calling them). Well-formedness (bytes < 256) is a "
                   "premise of the robustness theorems.",
        rule="JSON replies of a remote: payload.Hex.UnmarshalJSON on quoted strings of every length 0..70, non-strings and non-hex strings (modelled); json.Unmarshal into the 12 reply types the client decodes and 13 real client calls (GetRefs, GetHead, GetCommits, GetCommit, GetTable, profiles, Diff, transactions, PostUploadPack, a fetch negotiation, a push negotiation) against an httptest server, on reply templates with each value replaced by 27 hostile alternatives (null, numbers, arrays, objects, short/long/odd/non-hex strings, overflowing numbers), truncated at every offset, deep nesting, huge arrays, and error statuses 400/401/404/500 with JSON bodies (oracle only: no panic, bounded allocation, returns); Receive of tables whose primary-key indices sit at every boundary of the column count (n-1, n, n+1, 2^31, 2^32-1, duplicates, mixed) over well-formed blocks; persistence readers: stored commit/table/table-index/profile bytes and s2-compressed block / block-index values through the same mutation families (for the compressed ones both the compressed bytes and the compression of mutated plain bytes), missing key, empty value; Receive of every valid world again with the n-th Store.Set failing for every n, every key prefix failing, the n-th Store.Get failing for every n, judged by the closedness oracle; s2 headers announcing > 256 MiB are classified from s2.DecodedLen without running, except one fixed witness per class in corpus/C17; fixed witnesses of the repaired defects incl. counts 256/257/1024/1025/2^23 for both decoder modes; every cut 0..len of 4 valid commits (0..3 parents) and 4 valid tables with the oracle rule that only a complete encoding may be accepted; Receive: 12 (quick) / 150 (thorough) consistent worlds (blocks, tables "
             "with correct index sums, commit chain) sent valid and with one object dropped / moved / bit-flipped / truncated / "
             "retyped / replaced by an invalid block / duplicated / interleaved with a type-0 object, plus raw truncation and "
             "bit flips of the stream; decoders: per entry point (21 incl. reuse-mode decoders) 2 (quick) / 8 (thorough) valid encodings written by the real "
             "encoders, each truncated at EVERY offset, every bit of the first 24 bytes flipped plus 16 random bit flips, "
             "counts/lengths overwritten at every offset of the first 48 bytes with ffffffff 7fffffff 80000000 00010000 "
             "00000401 ffff, trailing garbage, every label letter altered; all byte strings of length <= 1 for every entry "
             "point, of length 2 for the validators (all entry points in thorough), and of length 2..5 over {00,01,80,ff} "
             "for every entry point. distinct = distinct case text; non-trivial = non-empty input",
        trusted=["allocation measured as the delta of the runtime's cumulative heap-allocation counter around the call "
                 "(runtime.ReadMemStats TotalAlloc for inputs > 5 bytes and for every suspected overshoot, runtime/metrics "
                 "/gc/heap/allocs:bytes otherwise)",
                 "for Receive the harness tabulates meow.Checksum, s2.Decode and IndexBlock sums of the objects the packfile "
                 "contains (found with the real PackfileReader) and hands the tables to the model",
                 "stale bytes of reused scratch buffers are modelled as zero (never observable on a successful decode)"],
        assumptions=["input bytes are < 256 (wf_bytes)",
                     "strconv.ParseInt / time.Parse are total functions that do not panic on 10- / 5-byte strings",
                     "meow hash, s2 and the profiler (dprof) do not panic or allocate out of proportion on the blocks a "
                     "table passes to them once IndexTable's shape checks succeeded (abstract in the model) - except the s2 "
                     "header allocation, which is the listed known finding"],
        gen_timeout={"quick": 900, "thorough": 7200},
)
