"""Configuration of ./check C08 (see pylib/props.py)."""
CFG = dict(
        coq=["props/C08.vo"],
        model_vo=["model/ClosedSets.vo", "model/ClosedSetsSpec.vo"],
        extract="Ex_C08",
        level_text="Theorems over the transliterated ClosedSetsFinder + CommitsQueue for EVERY acyclic history, every "
                   "sequence of Process(wants, haves, done) rounds (unknown hashes, deferred wants), every Go-map "
                   "processing order of the wants and every (unstable) queue sort: C08_cover, C08_order (parent-first, "
                   "duplicates allowed), C08_sound (listed commits / acks), C08_refuse (+ _iff), C08_depth_sound, "
                   "C08_depth_one_want and C08_set_exact (exact characterisations), C08_set_order_independent, "
                   "C08_terminates, C08_steps (+ recurrence: steps = number of parent paths). Two clauses of the "
                   "property are REFUTED by theorems about the faithful model and reproduced on the Go code: "
                   "C08_poly_refuted (diamond chain: 2^(n+2)-3 entries for 3n+1 commits, all n) and "
                   "C08_depth_order_refuted (tables depend on the map order of two wants). Model tied to "
                   "pkg/api/utils/closed_sets_finder.go + pkg/ref/commits_queue.go by differential execution.",
        level_note="Theorems are about coq/model/ClosedSets.v (hand transliteration, own small graph + queue); tie = "
                   "correspondence harness (exact CommitsToSend list / TablesToSend / acks whenever no enqueueWants call "
                   "loops over two wants; order-independent projections + the set of observed table sets otherwise). "
                   "Not proved: which haves are acknowledged exactly (only soundness of acks; the early break at the first "
                   "unknown have and the skipping of haves that are ancestors of earlier commons are covered by "
                   "correspondence only); complete table selection with several wants is false.",
        rule="fixed witnesses (order dependence, diamond chains n<=10, linear/fork/criss-cross, unknown have first, "
             "deferral over rounds, dangling parent, ref to unknown commit, SAME table sum on several commits: revert chain, commit reached by a short and a long path, identical data on two branches, each at depth 0..3 with one and two wants); exhaustive: every DAG on <=4 (quick, 22% sample) / "
             "<=5 (thorough; 4% sample of the 5-commit level) commits with <=2 ordered parents x want sets of size 1..3 x "
             "have sets of size 0..3 incl. one unknown hash, rotating over timestamp regimes {topological, reversed, all "
             "equal}, depth 0..3, refs {all heads, last commit only, duplicated ref}, table regimes {own table per commit, two alternating table sums, last commit reverts to the first table}, one shallow commit, round shapes "
             "{done, not done, haves split over two rounds, wants split over two rounds}; random DAGs of 2..14 commits "
             "(<=3 parents, repeated parent, shared table sums (1/3 of the cases 3 sums in all, 1/3 reverts to earlier tables), missing tables, random/tied times, dangling parent, unknown "
             "ref, 1..3 rounds). distinct = distinct case text; non-trivial = >= 3 commits (exhaustive) / every random case",
        trusted=["commit ids are small numbers mapped to MeowHash sums by the harness (parents created first); an id not "
                 "listed is an unknown 16-byte hash; a table id is 'stored' iff objects.SaveTable was called for it",
                 "when some enqueueWants call loops over >= 2 wants the harness runs the implementation 8 times (96/32 "
                 "times for depth > 0, single round) with permuted wants slices and compares the order-independent "
                 "projection and the set of TablesToSend sets seen with the model's enumeration of processing orders",
                 "with a dangling parent the queue order becomes observable through which pop hits the missing commit; "
                 "such cases are generated with pairwise distinct commit times only"],
        assumptions=["the object store is acyclic (content addressing); closedness is a hypothesis only of the "
                     "'no store error' conclusions",
                     "sort.Sort returns a permutation; Go map iteration returns every key once"],
)
