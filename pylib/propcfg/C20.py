"""Configuration of ./check C20 (see pylib/props.py)."""
CFG = dict(
        coq=["props/C20.vo"],
        tie=["gen/Tie_C20.vo", "gen/Tie_Code_Fanout.vo"],
        model_vo=["model/HashSet.vo", "model/HashSetSpec.vo"],
        extract="Ex_C20",
        level_text="Refinement theorem C20_refines: every Add/Flush/Has/reopen/Len/dump sequence on the transliterated "
                   "hash set gives the outputs of an abstract set (no bound on length, batch size or hash values), plus the "
                   "flush-merge kernel and membership corollary; model tied to pkg/index by differential execution "
                   "(exhaustive small scope + random sequences incl. raw file bytes).",
        level_note="Theorems are about coq/model/HashSet.v (hand transliteration); tie = correspondence harness; "
                   "os.File semantics and uint32 overflow (>= 2^32 entries) assumed.",
        rule="exhaustive: all sequences of <=4 (quick) / <=5 (thorough) Add/Flush ops over 4 hashes x batch sizes 1..3, "
             "each followed by flush, Has of every hash, raw file dump, reopen, dump, Has; long runs: 31..100 entries arriving in descending order / a big flushed table followed by smaller hashes, batch sizes 1, 3 and default; random: 5..65 ops over a "
             "hash space with first byte in {00,01,7f,ff} and 2..5 values in two tail bytes, batch sizes 0..5, reopen at "
             "random points. distinct = distinct case text; non-trivial = at least two ops before the final flush",
        trusted=["hash = big-endian N of the 16 bytes (tree coder in model/HashSet.v); file modelled as (fanout, table) "
                 "with an empty file read as an all-zero fanout; uint32 wrap of counters not modelled (< 2^32 entries)"],
        assumptions=["os.File Read returns the full 4/16 bytes requested (single Read calls in pkg/index/utils.go)",
                     "fewer than 2^32 entries"],
)
