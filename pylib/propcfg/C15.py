"""Configuration of ./check C15 (see pylib/props.py)."""
CFG = dict(
        coq=["props/C15.vo", "props/Compose3.vo"],
        compose=['Compose_refsql_crash', 'Compose_refsql_setwithlog', 'Compose_refsql_txlog', 'Compose_refsql_prune'],
        tie=["gen/Tie_C15.vo"],
        model_vo=["model/RefStore.vo", "model/Like.vo", "model/RefSql.vo", "gen/Extracted.vo"],
        extract="Ex_C15",
        level_text="Refinement theorem C15_refines: every sequence (any length, any names/values) of Set, SetWithLog, Get, "
                   "Delete, Filter, FilterKey, Rename, Copy, LogReader and of the refs.go helpers (DeleteAllRemoteRefs, "
                   "RenameAllRemoteRefs, DeleteTransactionRefs, listRefs, RenameRef, CopyRef, SaveRef, ListLocalRefs) on a model "
                   "of the SQL statements of pkg/ref/sql (PK / NOT NULL failures, RunInTx rollback, COUNT(*)+1 ordinals, "
                   "ORDER BY) returns step by step what a plain map with per-name logs returns, for the WHERE clause "
                   "instr(name,?)=1 (proved = literal is_prefix for all byte strings); frame, exact bulk delete / listing, log "
                   "faithfulness, append-only logs and rename/copy carry theorems over all reachable states; the pre-fix LIKE "
                   "clause is proved not to be prefix matching and not to refine. Model tied to the real SQLite-backed store "
                   "by differential execution (exhaustive small scope + random sequences) and SQLite's LIKE/instr themselves "
                   "to model/Like.v.",
        level_note="Theorems are about coq/model/RefSql.v (hand transliteration of the SQL statements) and model/Like.v; the "
                   "WHERE-clause kind is re-read from the Go source by the translator (gen/Extracted.v filter_kind) and the "
                   "extracted model run by the correspondence follows it; tie = correspondence harness on real in-memory "
                   "SQLite. The file store pkg/ref/fs is run on the same sequences and its differences from the plain map "
                   "are counted (fs_diff_* in input_distribution), not proved and not failed: it has directory semantics.",
        rule="fixed witnesses (the LIKE defect 1d9837e on remotes a_b/acb/A_B/a%/a: list, bulk delete, bulk rename; log/rename/copy "
             "script; nested remotes; partial bulk rename; transactions); exhaustive: all sequences of <=2 (quick) / <=3 "
             "(thorough) ops from a 41-op alphabet (Set, SetWithLog, Delete, Rename, Copy on 6 names that collide under LIKE; "
             "DeleteAllRemoteRefs / RenameAllRemoteRefs on 5 remotes) each followed by 25 observing calls (FilterKey, Filter, "
             "ListLocalRefs, Get+LogReader of 7 names, ListRemoteRefs of 6 remotes); random: 1..40 ops of all 17 kinds over a "
             "per-case sub-alphabet of 30 names / 11 remotes / 18 prefixes (with '_', '%', case variants, nested paths, "
             "prefixes of one another, arbitrary cut points); kind-1 cases: SQLite `? LIKE ?||'%'` and `instr(?,?)` on all "
             "strings over {a,A,_,%,b} (p<=2,s<=2 quick; <=3 thorough) + random strings with UTF-8. After EVERY step the "
             "oracle (Go map + log slices, strings.HasPrefix) is compared with the call's result and with the tables read "
             "back by plain SQL. distinct = distinct case text; non-trivial = at least one (exhaustive) / two (random) "
             "mutating-or-observing ops before the observation suffix, non-empty pattern for kind 1",
        trusted=["SQL semantics as modelled in model/RefSql.v: tables as bags of rows, BINARY collation = bytewise compare, "
                 "PRIMARY KEY / NOT NULL failures abort the statement, RunInTx rollback restores the pre-transaction state, "
                 "foreign keys not enforced (SQLite default, not switched on by pkg/local/repo_dir.go)",
                 "SQLite instr()/LIKE as modelled in model/Like.v (func.c instrFunc / patternCompare), cross-checked against "
                 "the linked SQLite by the kind-1 correspondence cases",
                 "reflog time column not modelled (never compared); values are non-NULL byte strings"],
        assumptions=["ref values passed to the store are non-nil byte slices (16-byte sums)",
                     "SQLite foreign key enforcement is off (default of the mattn driver as opened by pkg/local)",
                     "single connection / no concurrent writers (each method is one statement or one transaction)"],
)
