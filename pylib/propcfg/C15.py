"""Configuration of ./check C15 (see pylib/props.py)."""
CFG = dict(
        coq=["props/C15.vo", "props/Compose3.vo"],
        compose=['Compose_refsql_crash', 'Compose_refsql_setwithlog', 'Compose_refsql_txlog', 'Compose_refsql_prune'],
        tie=["gen/Tie_C15.vo"],
        model_vo=["model/RefStore.vo", "model/Like.vo", "model/RefSql.vo", "gen/Extracted.vo"],
        extract="Ex_C15",
        level_text="Refinement theorem C15_refines: every sequence (any length, any names/values) of Set, SetWithLog, Get, "
                   "Delete, Filter, FilterKey, Rename, Copy, LogReader and of the refs.go helpers (DeleteAllRemoteRefs, "
                   "RenameAllRemoteRefs, DeleteTransactionRefs, listRefs, RenameRef, CopyRef, SaveRef, ListLocalRefs) on a model "
                   "of the SQL statements of pkg/ref/sql (PK / NOT NULL failures, RunInTx rollback, COUNT(*)+1 ordinals, "
                   "ORDER BY) returns step by step what a plain map with per-name logs returns, for the WHERE clause "
                   "instr(name,?)=1 (proved = literal is_prefix for all byte strings); frame, exact bulk delete / listing, log "
                   "faithfulness, append-only logs and rename/copy carry theorems over all reachable states; C15_bulk_rename_exact / "
                   "_succeeds: RenameAllRemoteRefs (= `wrgl remote rename`) is a map operation on exactly the names under "
                   "remotes/<old>/ (value and whole log arrive under remotes/<new>/<same rest>, for any remote names, e.g. "
                   "ones occurring inside the literal 'remotes/'), and succeeds whenever the destinations are free; the pre-fix LIKE "
                   "clause is proved not to be prefix matching and not to refine. Model tied to the real SQLite-backed store "
                   "by differential execution (exhaustive small scope + random sequences) and SQLite's LIKE/instr themselves "
                   "to model/Like.v.",
        level_note="Theorems are about coq/model/RefSql.v (hand transliteration of the SQL statements) and model/Like.v; the "
                   "WHERE-clause kind is re-read from the Go source by the translator (gen/Extracted.v filter_kind) and the "
                   "extracted model run by the correspondence follows it; tie = correspondence harness on real in-memory "
                   "SQLite, plus an on-disk repository (pkg/local RepoDir + migrations) driven through the real `wrgl remote "
                   "rename|remove` commands (ops 17/18 are modelled as RenameAllRemoteRefs / DeleteAllRemoteRefs; the harness "
                   "keeps the remote configuration in step because `remote rename` exits the process for an unconfigured "
                   "remote; `rename r r` is not generated). The file store pkg/ref/fs (not modelled in Coq: oracle-only) is "
                   "run on the same sequences and judged STRICTLY (oracle classes fs-<op>) against the plain map inside the "
                   "sub-domain where a directory tree can act as a flat map: clean path names that never conflict as file vs "
                   "directory with any name written before (directories are never removed); reflog fields the one-line text "
                   "format can carry (author non-empty and without '<' or digits after its first character, action non-empty "
                   "without ':', no newline; the transaction id is not stored and not compared); Delete of an existing name; "
                   "Rename/Copy (and RenameRef/CopyRef) whose source is missing, or whose destination is free and conflict-free "
                   "(Copy: source has a log); Get; LogReader of a conflict-free name; Filter/FilterKey/list helpers with at "
                   "most one prefix that is empty or ends in '/' and no notPrefixes (keys compared sorted); "
                   "DeleteAllRemoteRefs/DeleteTransactionRefs; RenameAllRemoteRefs with non-nested prefixes and every "
                   "destination free. Strict judgement lasts until the first MUTATING step outside that sub-domain; from "
                   "there on, and for read-only steps outside it, differences are only counted (fs_diff_* / "
                   "fs_strict_ends_at_* in input_distribution) - the store has directory semantics (Delete of a missing "
                   "name errors, Rename/Copy overwrite, listings ignore notPrefixes, nested names conflict).",
        rule="fixed witnesses (the LIKE defect 1d9837e on remotes a_b/acb/A_B/a%/a: list, bulk delete, bulk rename; log/rename/copy "
             "script; nested remotes; partial bulk rename; transactions); exhaustive: all sequences of <=2 (quick) / <=3 "
             "(thorough) ops from a 41-op alphabet (Set, SetWithLog, Delete, Rename, Copy on 6 names that collide under LIKE; "
             "DeleteAllRemoteRefs / RenameAllRemoteRefs on 5 remotes) each followed by 25 observing calls (FilterKey, Filter, "
             "ListLocalRefs, Get+LogReader of 7 names, ListRemoteRefs of 6 remotes); random: 1..40 ops of all 17 kinds over a "
             "per-case sub-alphabet of 30 names / 11 remotes / 18 prefixes (with '_', '%', case variants, nested paths, "
             "prefixes of one another, arbitrary cut points; remotes also named by substrings of the namespace literals: "
             "o s e r m t es remote remotes heads tags txs); batch nsrem: for each such remote (and a_b, origin) x 6 new "
             "names: refs with and without logs under the remote (one branch named like the remote), other remote, heads/ "
             "and tags/ of the same name, then ListRemoteRefs, RenameAllRemoteRefs and 13 observing/deleting calls; batch "
             "cli (kind 2): the same scripts (every 3rd in quick) and 40 (quick) / 600 (thorough) random sequences of "
             "SaveRef / `wrgl remote rename` / `wrgl remote remove` / ListRemoteRefs on an on-disk repository, tables "
             "read back from the sqlite.db file; batch fslog (kind 3, file store always run): 60 (quick) / 1200 "
             "(thorough) cases of 1..40 (thorough 1..150) logged sets over 1-3 conflict-free names with messages of "
             "0..130 (300; thorough also 900..2300) bytes around a per-case base length so that the log reader's "
             "1024-byte chunks are cut at every position of a line, interleaved with Set, Get, LogReader, Rename/Copy to "
             "fresh names (log carried) and Delete + re-creation; kind-1 cases: SQLite `? LIKE ?||'%'` and `instr(?,?)` on all "
             "strings over {a,A,_,%,b} (p<=2,s<=2 quick; <=3 thorough) + random strings with UTF-8. After EVERY step the "
             "oracle (Go map + log slices, strings.HasPrefix) is compared with the call's result and with the tables read "
             "back by plain SQL. distinct = distinct case text; non-trivial = at least one (exhaustive) / two (random, fslog) "
             "mutating-or-observing ops before the observation suffix, non-empty pattern for kind 1",
        trusted=["SQL semantics as modelled in model/RefSql.v: tables as bags of rows, BINARY collation = bytewise compare, "
                 "PRIMARY KEY / NOT NULL failures abort the statement, RunInTx rollback restores the pre-transaction state, "
                 "foreign keys not enforced (SQLite default, not switched on by pkg/local/repo_dir.go)",
                 "SQLite instr()/LIKE as modelled in model/Like.v (func.c instrFunc / patternCompare), cross-checked against "
                 "the linked SQLite by the kind-1 correspondence cases",
                 "reflog time column not modelled (never compared); values are non-NULL byte strings"],
        assumptions=["ref values passed to the store are non-nil byte slices (16-byte sums)",
                     "SQLite foreign key enforcement is off (default of the mattn driver as opened by pkg/local)",
                     "single connection / no concurrent writers (each method is one statement or one transaction)",
                     "file store: judged only on the sub-domain described in level_note (oracle only, no Coq model)"],
)
