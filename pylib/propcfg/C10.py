"""Configuration of ./check C10 (see pylib/props.py)."""
CFG = dict(
        coq=["props/C10.vo", "props/Compose.vo", "props/Compose3.vo"],
        compose=['Compose_is_ancestor', 'Compose_seek', 'Compose_forward_only', 'Compose_log_true', 'Compose_merge_ok', 'Compose_pull_ok', 'Compose_fetch_ok', 'Compose_push_ok', 'Compose_store_closed', 'Compose_refsql_trace', 'Compose_refsql_history', 'Compose_refsql_log', 'Compose_refsql_forward', 'Compose_refsql_initial'],
        tie=["gen/Tie_C10.vo"],
        model_vo=["model/RefUpdate.vo"],
        extract="Ex_C10",
        level_text="History theorem C10_forward_only: in every sequence of fetch / push / merge / pull operations "
                   "over any commit graph, every ref write old->new of the transliterated rules (saveFetchedRefs loop, "
                   "identifyUpdates + the reference server's compare-and-swap rule, runMerge, pullSingleRepo) that is not "
                   "forced goes to a descendant-or-self of old, and an existing tag changes only with force (premises: "
                   "IsAncestorOf sound, merge base sound = C11, both proved for the executable instances); per-operation "
                   "theorems for fetch, push and merge without any guard; rejected update leaves the store unchanged; frame "
                   "theorem over the per-ref loop; C10_ff_exact; C10_log_true (LogFaithful invariant over histories, every "
                   "local update found in its ref's log with true old/new); the three decision tables proved exhaustively "
                   "(forallb over the finite domain, lifted with forallb_forall). The code before fix 43d74b6 is kept as "
                   "model variant pull_step_prefix: C10_forward_only_prefix_refuted (a pull that creates the branch while "
                   "one of its glob refspecs fetches straight into refs/heads/ overwrote the just-fetched branch) and "
                   "C10_forward_only_prefix_partial (held only under a guard).",
        level_note="Theorems are about coq/model/RefUpdate.v (hand transliteration); tie = correspondence harness running "
                   "`wrgl fetch|push|merge|pull` in-process against the reference server (harness/c09_server.go, trusted) + "
                   "gen/Tie_C10 (merge-base pre-check shape). Refspec parsing, interpretDestination's suffix matching, --mirror, "
                   "pull without explicit refspecs (branch.<b>.merge config) and merges of three or more inputs are "
                   "exercised only as far as the generated cases go (merge of >= 3 inputs: theorem parametric in the merge "
                   "base, no correspondence; a 4.6M-call brute force over all DAGs <= 6 commits found no bad outcome).",
        rule="tables: relation {equal, ahead, behind, diverged, unrelated, behind-merge (the C11 fix witness), ahead-merge, "
             "diverged-merge} x destination kind {remote-tracking, head, tag, custom} x destination present/absent x "
             "per-refspec force x global force for fetch (256) and push (x server denyNonFastForwards, 512); relation x "
             "{--ff,--no-ff,--ff-only} x other-ref kind for merge (72); relation x mode x branch present x forces x "
             "tracking-ref state for pull (576); cross-kind tables for fetch and for push: relation x SOURCE kind {heads, "
             "tags, remotes, other} x DESTINATION kind {heads, tags, remotes, other} (every pair) x destination "
             "present/absent x per-refspec + x --force (1024 each; the rules and the oracle's tag protection are keyed "
             "on the destination name); quick tier keeps a hashed 1/2, 1/4, 1/6, 1/8 of the fetch/push/pull/cross-kind tables, "
             "thorough all of them under 3 timestamp regimes; SHARED-COMMIT multi-ref operations (2-4 refs in one invocation): every destination receives the SAME new commit "
             "but holds a different old value {ancestor, diverged, unrelated/ahead, equal, absent}, relations assigned to the "
             "names a<b<c<... in every rotation, reversed rotation, ordered pair and triple, x --force x ('+' on no ref / "
             "first ref only / last ref only), for fetch (one glob refspec and exact refspecs), push (both argument orders) "
             "and pull (two refspecs, fetch half judged per ref), and the converse (one old value, different new commits); "
             "each ref is judged on its own old/new pair (C10_frame); quick keeps a hashed 1/12..1/16 plus always-run "
             "witnesses; witnesses: first pull of a branch whose remote-tracking ref already exists (fetch first, "
             "then pull; up to date / behind) x merge modes - heads/BRANCH must be created (oracle clause "
             "pull-branch-not-created + C10_pull_creates_branch); a branch fetched / pushed onto an existing tag (descendant commit, no force: must be refused) and a tag "
             "onto an existing branch, glob fetch with mixed outcomes and uncovered "
             "tags, short-ref glob (panicked before fix 598c9ec), multi-item push with deletes under denyDeletes/denyNonFF, missing push source, "
             "pull-new-branch-glob; random: 3..10-commit DAGs, 6 ref names, multi-ref fetch (glob + tag + custom specs) "
             "or push. distinct = distinct case text; all cases non-trivial (each runs one command on a fresh repository)",
        trusted=["reference server harness/c09_server.go (GET /refs/, upload-pack, receive-pack with the ref update rule "
                 "R1-R4 stated at the top of that file; the protocol has no force bit, so the server applies compare-and-swap "
                 "+ optional denyNonFastForwards/denyDeletes)",
                 "objects are assumed to arrive (C09): the model's fetch adds the ancestors of every advertised commit",
                 "abstract commit ids: the harness maps sums to ids; a commit created by merge is recognised by its parents"],
        assumptions=["ref.IsAncestorOf is sound (C11_is_ancestor_correct) - premise IsAncSound",
                     "ref.SeekCommonAncestor returns a common ancestor when it returns an input (C11) - premise SeekSound",
                     "distinct destinations within one operation (two refspecs mapping to one destination make the Go "
                     "result depend on map iteration order)",
                     "one client at a time (the server's compare-and-swap R1 is what protects concurrent pushes; modelled, "
                     "not exercised)"],
)
