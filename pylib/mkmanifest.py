#!/usr/bin/env python3
"""Regenerates /verif/MANIFEST.json from pylib/props.py (run after editing props.py)."""
import json, os, sys
sys.path.insert(0, os.path.dirname(os.path.abspath(__file__)))
from props import PROPS, PENDING

VERIF = os.path.dirname(os.path.dirname(os.path.abspath(__file__)))
ids = [json.loads(l)["id"] for l in open(os.path.join(VERIF, "properties.jsonl"))]
checks = []
for pid in ids:
    if pid not in PROPS:
        continue
    c = PROPS[pid]
    checks.append(dict(
        property_id=pid,
        quick_cmd="./check %s --tier quick" % pid,
        thorough_cmd="./check %s --tier thorough" % pid,
        evidence_file="/verif/evidence/%s.json" % pid,
        replay_cmd_template="./check %s --replay {path}" % pid,
        engine="coq-proof+correspondence",
        level_claimed=dict(category="proof", text=c["level_text"], design_ref=c.get("design_ref", "DESIGN.md section 8 (%s)" % pid)),
        level_note=c["level_note"],
        technique=c.get("technique", "machine-checked proof in Coq 8.16.1 of theorems over an executable Gallina model, tied to /repo by translator-regenerated obligations and differential execution of the extracted model against the Go implementation"),
    ))
m = dict(
    version=1,
    setup_cmd="./setup.sh",
    hooks=dict(guard="verif", enable="go build -tags verif (harness module /verif/harness with replace github.com/wrgl/wrgl => /repo)",
               baseline_off_cmd="cd /repo && go test -mod=mod -vet=off -count=1 -timeout 25m ./...",
               source_commits=[l.strip() for l in open(os.path.join(VERIF, "hooks_commits.txt"))] if os.path.exists(os.path.join(VERIF, "hooks_commits.txt")) else [],
               add_only=True),
    engines=[dict(name="coq-proof+correspondence", path="/verif/check",
                  serves_properties=[c["property_id"] for c in checks],
                  kind_free_text="Coq 8.16.1 development (coq/), Go->Coq translator (translator/), Go differential harness (harness/), extracted OCaml model driver (driver/)")],
    checks=checks,
    notes="All checks: ./check <id> [--tier quick|thorough] [--replay file]; VERIF_SEED seeds the single PRNG. See DESIGN.md.",
    not_applicable=[dict(property_id=p, reason=PENDING[p]) for p in ids if p not in PROPS],
)
json.dump(m, open(os.path.join(VERIF, "MANIFEST.json"), "w"), indent=1)
print("wrote MANIFEST.json with", len(checks), "checks")
