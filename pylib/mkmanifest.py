#!/usr/bin/env python3
"""Regenerates /verif/MANIFEST.json from pylib/props.py (run after editing props.py)."""
import json, os, sys
sys.path.insert(0, os.path.dirname(os.path.abspath(__file__)))
from props import PROPS, PENDING

TECHNIQUE = {
 "C01": "Coq proof: ingest model = sorted key-dedup of the input for every run partition / sort / block arrival order; tie obligations on regenerated constants; differential execution",
 "C02": "Coq proof: canonical form and injectivity of the table object (corollaries of the C01 characterisation); differential execution over permutations, run sizes, workers, stores",
 "C03": "Coq proof: WF_table invariant of every table produced through the sorter; row-address arithmetic; differential execution over all four producers",
 "C04": "Coq proof: window-search invariant by induction over blocks, diff = spec as lists; differential execution incl. exhaustive window scopes and the CLI",
 "C05": "Coq proof (partial): row-level resolver = name-based spec for any number of layers; table-level laws under the same-layout guard; refuted-witness theorems for the known findings; differential execution",
 "C06": "Coq proof: decode(encode x)=x and canonicity per format, varint header for all u<2^64, store keyed by hash; differential execution incl. boundary counts and over-limit values",
 "C07": "Coq proof: sender/receiver state machines, exactness and gates by induction over arbitrary object streams; differential execution incl. hostile streams",
 "C08": "Coq proof: cover/order/soundness of the literal walks for every want order and multi-round session; exponential count proved for all n (refutation); differential execution",
 "C09": "Coq proof (partial): client session state machine composed with a reference server model, closure of updated refs under any single lost response; differential execution against an in-process reference server",
 "C10": "Coq proof: forward-only invariant over histories of fetch/push/merge/pull; finite decision tables proved exhaustively; differential execution of the CLI",
 "C11": "Coq proof: worklist invariant for any placement (= any timestamps), ancestor test and 2-input merge base correct, >=3-input refutation; differential execution (exhaustive DAGs <=5)",
 "C12": "Coq proof: prune plan safe at every prefix, complete, idempotent, re-runnable (children-first Kahn order proved); differential execution with recorded delete traces",
 "C13": "Coq proof (partial): invariant preserved by every single atomic write of every operation under any worker interleaving, parametric in regenerated write-order skeletons; crash-prefix replay against real stores",
 "C14": "Coq proof (partial): write-list model of Commit/Discard, all-or-completable for every cut and enumeration order; fault injection at every store call and inside SQL statements",
 "C15": "Coq proof: SQL-statement model refines a plain map with logs for every op sequence (simulation); instr = literal prefix; differential execution on real SQLite",
 "C16": "Coq proof (partial): interleaving semantics generated from the regenerated lockset skeleton, sequential result under every schedule; data-race freedom of the progress counters from the regenerated access kinds; forced-schedule and fault soak, command-level batches in child processes, replay under a -race build as violation search",
 "C17": "Coq proof: decoders in an explicit panic/allocation monad never Panic, fuel linear, allocation <= c|b|+k; receiver keeps the store closed for every packfile; differential execution on mutated encodings",
 "C18": "Coq proof: io.ReadFull / CopyN partition-independent, lifted to every decoder built from them, for every byte string and partition; tie: all read sites Full; differential execution under chunked readers",
 "C19": "Coq proof: k-way merge of any sorted-run partition = sorted key-dedup, both outputs agree, cleanup over Reset histories; differential execution",
 "C20": "Coq proof: refinement of the on-disk hash set to an abstract set for every operation sequence (simulation), shift-from-the-back merge kernel; differential execution incl. raw file bytes",
}
VERIF = os.path.dirname(os.path.dirname(os.path.abspath(__file__)))
ids = [json.loads(l)["id"] for l in open(os.path.join(VERIF, "properties.jsonl"))]
checks = []
for pid in ids:
    if pid not in PROPS:
        continue
    c = PROPS[pid]
    checks.append(dict(
        property_id=pid,
        quick_cmd="./check %s --tier quick" % pid,
        thorough_cmd="./check %s --tier thorough" % pid,
        evidence_file="/verif/evidence/%s.json" % pid,
        replay_cmd_template="./check %s --replay {path}" % pid,
        engine="coq-proof+correspondence",
        level_claimed=dict(category="proof", text=c["level_text"], design_ref=c.get("design_ref", "DESIGN.md section 8 (%s)" % pid)),
        level_note=c["level_note"],
        technique=c.get("technique", TECHNIQUE.get(pid)) or ("machine-checked proof in Coq 8.16.1 of theorems over an executable Gallina model, tied to /repo by translator-regenerated obligations and differential execution of the extracted model against the Go implementation"),
    ))
m = dict(
    version=1,
    setup_cmd="./setup.sh",
    hooks=dict(guard="verif", enable="go build -tags verif (harness module /verif/harness with replace github.com/wrgl/wrgl => /repo)",
               baseline_off_cmd="cd /repo && go test -mod=mod -vet=off -count=1 -timeout 25m ./...",
               source_commits=[l.strip() for l in open(os.path.join(VERIF, "hooks_commits.txt"))] if os.path.exists(os.path.join(VERIF, "hooks_commits.txt")) else [],
               add_only=True),
    engines=[dict(name="coq-proof+correspondence", path="/verif/check",
                  serves_properties=[c["property_id"] for c in checks],
                  kind_free_text="Coq 8.16.1 development (coq/), Go->Coq translator (translator/), Go differential harness (harness/), extracted OCaml model driver (driver/)")],
    checks=checks,
    notes="All checks: ./check <id> [--tier quick|thorough] [--replay file]; VERIF_SEED seeds the single PRNG. See DESIGN.md.",
    not_applicable=[dict(property_id=p, reason=PENDING[p]) for p in ids if p not in PROPS],
)
json.dump(m, open(os.path.join(VERIF, "MANIFEST.json"), "w"), indent=1)
print("wrote MANIFEST.json with", len(checks), "checks")
