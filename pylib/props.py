"""Per-property configuration of ./check: one file pylib/propcfg/Cxx.py per claimed
property, each defining CFG = dict(
    coq=[make targets under coq/ whose build is the property's proof obligation, normally "props/Cxx.vo"],
    tie=[optional "gen/Tie_Cxx.vo" obligations over the translator-regenerated gen/Extracted.v],
    model_vo=[model .vo files the extraction needs],
    extract="Ex_Cxx"   (coq/extract/Ex_Cxx.v must define `run : tree -> tree`),
    rule="how cases are generated and what makes one distinct / non-trivial",
    level_text=..., level_note=..., trusted=[...], assumptions=[...])."""
import importlib, os, glob, sys

_here = os.path.dirname(os.path.abspath(__file__))
sys.path.insert(0, _here)
PROPS = {}
for _f in sorted(glob.glob(os.path.join(_here, "propcfg", "C*.py"))):
    _pid = os.path.basename(_f)[:-3]
    PROPS[_pid] = importlib.import_module("propcfg." + _pid).CFG

# Properties not (yet) claimed: reason recorded in MANIFEST.not_applicable.
PENDING = {p: "machinery for this property is not built yet in this revision (construction order in DESIGN.md section 10); "
              "no claim is made until its model, theorems and correspondence exist"
           for p in ["C%02d" % i for i in range(1, 21)]}
