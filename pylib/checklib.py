"""Driver library for ./check (see DESIGN.md section 2 and 4)."""
import sys, os, re, json, time, subprocess, hashlib, fcntl, shutil, glob, argparse

VERIF = os.path.dirname(os.path.dirname(os.path.abspath(__file__)))
REPO = os.environ.get("VERIF_REPO", "/repo")
COQ = os.path.join(VERIF, "coq")
BUILD = os.path.join(VERIF, "build")
QFLAGS = []
for d in ("lib", "model", "proofs", "props", "gen", "extract"):
    QFLAGS += ["-Q", os.path.join(COQ, d), "W." + d]

GOENV = dict(os.environ, GOFLAGS="-mod=mod", GOPROXY="off", GOSUMDB="off",
             GOTOOLCHAIN="local", CGO_ENABLED="1")

from props import PROPS  # noqa: E402

FORBIDDEN = re.compile(
    r"\b(Admitted|admit|Axiom|Axioms|Parameter|Parameters|Conjecture|Conjectures|"
    r"Admit Obligations|bypass_check|native_compute)\b|Unset\s+Guard|Unset\s+Positivity|"
    r"Unset\s+Universe|type-in-type|impredicative-set")
# Standard-library axioms a theorem may depend on (must be named in the trusted base).
AXIOM_WHITELIST = set()


def log(msg):
    print(msg, flush=True)


def sh(cmd, cwd=None, timeout=1800, env=None, stdin=None, stdout=None):
    t0 = time.time()
    try:
        p = subprocess.run(cmd, cwd=cwd, env=env, stdin=stdin,
                           stdout=stdout if stdout is not None else subprocess.PIPE,
                           stderr=subprocess.STDOUT, timeout=timeout)
        out = p.stdout.decode("utf-8", "replace") if p.stdout else ""
        return p.returncode, out, time.time() - t0
    except subprocess.TimeoutExpired as e:
        out = e.stdout.decode("utf-8", "replace") if e.stdout else ""
        return 124, out + "\n[timeout after %ds]" % timeout, time.time() - t0


class Lock:
    def __init__(self, name):
        os.makedirs(BUILD, exist_ok=True)
        self.path = os.path.join(BUILD, "." + name + ".lock")

    def __enter__(self):
        self.f = open(self.path, "w")
        fcntl.flock(self.f, fcntl.LOCK_EX)
        return self

    def __exit__(self, *a):
        fcntl.flock(self.f, fcntl.LOCK_UN)
        self.f.close()


def write_if_changed(path, content):
    try:
        if open(path).read() == content:
            return False
    except OSError:
        pass
    os.makedirs(os.path.dirname(path), exist_ok=True)
    with open(path, "w") as f:
        f.write(content)
    return True


def strip_coq_comments(s):
    out, depth, i = [], 0, 0
    while i < len(s):
        if s.startswith("(*", i):
            depth += 1
            i += 2
        elif s.startswith("*)", i) and depth > 0:
            depth -= 1
            i += 2
        else:
            if depth == 0:
                out.append(s[i])
            elif s[i] == "\n":
                out.append("\n")
            i += 1
    return "".join(out)


# --------------------------------------------------------------------------
# steps
# --------------------------------------------------------------------------

def translate():
    """Go source of /repo -> coq/gen/Extracted.v (regenerated on every run)."""
    tdir = os.path.join(VERIF, "translator")
    if not os.path.exists(os.path.join(tdir, "main.go")):
        return True, "no translator"
    with Lock("go"):
        rc, out, _ = sh(["go", "build", "-o", os.path.join(BUILD, "translator"), "."],
                        cwd=tdir, env=GOENV, timeout=600)
    if rc != 0:
        return False, "translator build failed:\n" + out
    with Lock("coq"):
        # second argument: translated kernel bodies (coq/gen/ExtractedCode.v, rewritten only when changed)
        rc, out, _ = sh([os.path.join(BUILD, "translator"), REPO, os.path.join(COQ, "gen", "ExtractedCode.v")],
                        timeout=180, stdout=None)
        if rc != 0:
            return False, "translator failed:\n" + out
        write_if_changed(os.path.join(COQ, "gen", "Extracted.v"), out)
    return True, ""


def coq_files():
    fs = []
    for d in ("lib", "model", "proofs", "props", "gen"):
        fs += sorted(glob.glob(os.path.join(COQ, d, "*.v")))
    return [os.path.relpath(f, COQ) for f in fs]


def coq_make(targets, timeout=2400):
    with Lock("coq"):
        files = coq_files()
        rc, out, _ = sh(["coq_makefile", "-f", "_CoqProject"] + files + ["-o", "Makefile"], cwd=COQ)
        if rc != 0:
            return False, out, 0
        rc, out, dt = sh(["make", "-j16", "-k"] + targets, cwd=COQ, timeout=timeout)
    return rc == 0, out, dt


def audit_sources():
    """No Admitted/Axiom/... anywhere in the development (comments stripped)."""
    bad = []
    for f in coq_files() + [os.path.relpath(p, COQ) for p in glob.glob(os.path.join(COQ, "extract", "*.v"))]:
        src = strip_coq_comments(open(os.path.join(COQ, f)).read())
        for n, line in enumerate(src.split("\n"), 1):
            if FORBIDDEN.search(line):
                bad.append("%s:%d: %s" % (f, n, line.strip()))
    proj = open(os.path.join(COQ, "_CoqProject")).read()
    if re.search(r"type-in-type|impredicative-set|-vos|-vok", proj):
        bad.append("_CoqProject: forbidden flag")
    return bad


def theorem_names(pid):
    src = strip_coq_comments(open(os.path.join(COQ, "props", pid + ".v")).read())
    return re.findall(r"^\s*(?:Theorem|Lemma|Corollary)\s+([A-Za-z0-9_']+)", src, re.M)


def extra_theorems(pid):
    """(module, name) of the composition theorems (props/Compose*.v) registered for this property:
    cfg['compose'] = list of name prefixes, e.g. ["Compose_ingest", "Compose_wf"]; the modules looked at are
    the props/Compose*.vo files listed in cfg['coq']."""
    pref = PROPS[pid].get("compose")
    if not pref:
        return []
    res = []
    for tg in PROPS[pid]["coq"]:
        mod = os.path.basename(tg)[:-3]
        if not mod.startswith("Compose"):
            continue
        f = os.path.join(COQ, "props", mod + ".v")
        if not os.path.exists(f) or not os.path.exists(os.path.join(COQ, "props", mod + ".vo")):
            continue
        src = strip_coq_comments(open(f).read())
        names = re.findall(r"^\s*(?:Theorem|Lemma|Corollary)\s+([A-Za-z0-9_']+)", src, re.M)
        res += [(mod, n) for n in names if any(n.startswith(p) for p in pref)]
    return res


def tie_theorems(pid):
    """(module, name) of every Theorem/Lemma/Example stated in the property's tie files."""
    res = []
    for tg in PROPS[pid].get("tie", []):
        mod = os.path.basename(tg)[:-3]
        f = os.path.join(COQ, "gen", mod + ".v")
        if not os.path.exists(f):
            continue
        src = strip_coq_comments(open(f).read())
        for n in re.findall(r"^\s*(?:Theorem|Lemma|Corollary|Example)\s+([A-Za-z0-9_']+)", src, re.M):
            res.append((mod, n))
    return res


def print_assumptions(pid, bdir):
    """Returns {theorem: text}; uses Redirect so each answer lands in its own file."""
    names = theorem_names(pid)
    lines = ["From W.props Require Import %s." % pid]
    for n in names:
        lines.append('Redirect "%s" Print Assumptions %s.' % (os.path.join(bdir, "pa_" + n), n))
    ties = [(m, n) for (m, n) in tie_theorems(pid) if os.path.exists(os.path.join(COQ, "gen", m + ".vo"))]
    comps = extra_theorems(pid)
    for m in sorted(set(m for m, _ in comps)):
        lines.append("From W.props Require %s." % m)
    for m, n in comps:
        lines.append('Redirect "%s" Print Assumptions W.props.%s.%s.' % (os.path.join(bdir, "pa_%s.%s" % (m, n)), m, n))
    for m in sorted(set(m for m, _ in ties)):
        lines.append("From W.gen Require %s." % m)
    for m, n in ties:
        lines.append('Redirect "%s" Print Assumptions W.gen.%s.%s.' % (os.path.join(bdir, "pa_%s.%s" % (m, n)), m, n))
    names = names + ["%s.%s" % (m, n) for m, n in ties] + ["%s.%s" % (m, n) for m, n in comps]
    vf = os.path.join(bdir, "Assumptions_%s.v" % pid)
    with open(vf, "w") as f:
        f.write("\n".join(lines) + "\n")
    rc, out, _ = sh(["coqc"] + QFLAGS + ["-o", os.path.join(bdir, "Assumptions_%s.vo" % pid), vf], cwd=bdir, timeout=600)
    res = {}
    for n in names:
        p = os.path.join(bdir, "pa_" + n + ".out")
        res[n] = open(p).read().strip() if os.path.exists(p) else "MISSING (%s)" % out[-300:]
    return res


def assumptions_ok(text):
    if text.startswith("Closed under the global context"):
        return True, []
    if text.startswith("Axioms:"):
        axs = re.findall(r"^([A-Za-z0-9_.']+)\s*:", text[len("Axioms:"):], re.M)
        return all(a in AXIOM_WHITELIST for a in axs), axs
    return False, ["?"]


def build_driver(pid, bdir):
    ex = PROPS[pid]["extract"]
    src = os.path.join(COQ, "extract", ex + ".v")
    rc, out, _ = sh(["coqc"] + QFLAGS + ["-o", os.path.join(bdir, ex + ".vo"), src], cwd=bdir, timeout=900)
    low = ex[0].lower() + ex[1:]
    ml = os.path.join(bdir, low + ".ml")
    if rc != 0 or not os.path.exists(ml):
        return False, "extraction failed:\n" + out
    new = open(ml).read() + open(os.path.join(bdir, low + ".mli")).read() + \
        open(os.path.join(VERIF, "driver", "driver.ml")).read()
    stamp = os.path.join(bdir, "driver.stamp")
    h = hashlib.sha256(new.encode()).hexdigest()
    if os.path.exists(os.path.join(bdir, "driver")) and os.path.exists(stamp) and open(stamp).read() == h:
        return True, ""
    shutil.copy(ml, os.path.join(bdir, "ex.ml"))
    shutil.copy(os.path.join(bdir, low + ".mli"), os.path.join(bdir, "ex.mli"))
    shutil.copy(os.path.join(VERIF, "driver", "driver.ml"), os.path.join(bdir, "driver.ml"))
    rc, out, _ = sh(["ocamlfind", "ocamlopt", "-w", "-a", "ex.mli", "ex.ml", "driver.ml", "-o", "driver"],
                    cwd=bdir, timeout=600)
    if rc != 0:
        return False, "ocaml build failed:\n" + out
    open(stamp, "w").write(h)
    return True, ""


def build_harness():
    hdir = os.path.join(VERIF, "harness")
    with Lock("go"):
        shutil.copy(os.path.join(REPO, "go.sum"), os.path.join(hdir, "go.sum"))
        rc, out, dt = sh(["go", "build", "-tags", "verif", "-o", os.path.join(BUILD, "verifharness"), "."],
                         cwd=hdir, env=GOENV, timeout=1200)
    return rc == 0, out


def parse_cases(path):
    """-> (cases, info).  case = dict(tag, nontrivial, ok, cls, msg, C, I)."""
    cases, info, cur = [], {}, None
    if not os.path.exists(path):
        return cases, info
    with open(path, errors="replace") as f:
        for line in f:
            line = line.rstrip("\n")
            if line.startswith("C "):
                cur = {"C": line[2:], "I": None, "tag": "?", "nontrivial": False, "ok": None, "cls": "-", "msg": ""}
                cases.append(cur)
            elif line.startswith("I ") and cur is not None:
                cur["I"] = line[2:]
            elif line.startswith("@ ") and cur is not None:
                parts = line[2:].split(" ", 4)
                cur["tag"] = parts[0]
                cur["nontrivial"] = parts[1] == "1"
                cur["ok"] = parts[2] == "ok"
                cur["cls"] = parts[3]
                cur["msg"] = parts[4] if len(parts) > 4 else ""
            elif line.startswith("# "):
                k, v = line[2:].rsplit(" ", 1)
                info[k] = int(v)
    return cases, info


def run_model(bdir, cases, timeout=1800):
    inp = os.path.join(bdir, "model_in.txt")
    outp = os.path.join(bdir, "model_out.txt")
    with open(inp, "w") as f:
        for c in cases:
            f.write(c["C"] + "\n")
    with open(inp) as fi, open(outp, "w") as fo:
        try:
            p = subprocess.run([os.path.join(bdir, "driver")], stdin=fi, stdout=fo, stderr=subprocess.PIPE, timeout=timeout)
            rc, err = p.returncode, p.stderr.decode("utf-8", "replace")
        except subprocess.TimeoutExpired:
            rc, err = 124, "timeout"
    outs = open(outp).read().split("\n")
    for i, c in enumerate(cases):
        c["M"] = outs[i] if i < len(outs) and (i < len(outs) - 1 or outs[i]) else None
    return rc == 0, err


def load_known():
    """known_findings.txt: 'finding: property=Cxx class=<class> <text>' / 'fixed: ...'."""
    res = {}
    p = os.path.join(VERIF, "known_findings.txt")
    if os.path.exists(p):
        for line in open(p):
            m = re.match(r"finding:\s+property=(C\d+)\s+class=(\S+)\s*(.*)", line.strip())
            if m:
                res.setdefault(m.group(1), {})[m.group(2)] = m.group(3)
    return res


def harness_env(pid, **extra):
    """Environment of every harness process: its scratch files (temp repositories, sorter chunks,
    child processes' temp dirs) go to build/<pid>/tmp, which main() removes when the run ends."""
    d = os.path.join(BUILD, pid, "tmp")
    os.makedirs(d, exist_ok=True)
    return dict(GOENV, TMPDIR=d, **extra)


def clean_scratch(pid):
    shutil.rmtree(os.path.join(BUILD, pid, "tmp"), ignore_errors=True)


def harness_gen(pid, seed, tier, out, timeout):
    return sh([os.path.join(BUILD, "verifharness"), "gen", pid, str(seed), tier, out],
              env=harness_env(pid), timeout=timeout)


def harness_replay(pid, casefile, out, timeout=600):
    return sh([os.path.join(BUILD, "verifharness"), "replay", pid, casefile, out], env=harness_env(pid), timeout=timeout)



# ---------------------------------------------------------------- race-detector stage (C16)
RACE_BIN = os.path.join(BUILD, "verifharness_race")


def build_race_harness():
    hdir = os.path.join(VERIF, "harness")
    with Lock("go"):
        shutil.copy(os.path.join(REPO, "go.sum"), os.path.join(hdir, "go.sum"))
        rc, out, dt = sh(["go", "build", "-race", "-tags", "verif", "-o", RACE_BIN, "."],
                         cwd=hdir, env=GOENV, timeout=1800)
    return rc == 0, out


def race_reports(prefix):
    """Parse GORACE log files -> list of report texts that involve code of the repository."""
    reps = []
    for p in sorted(glob.glob(prefix + ".*")):
        txt = open(p, errors="replace").read()
        for part in txt.split("WARNING: DATA RACE")[1:]:
            part = part.split("==================")[0]
            if "github.com/wrgl/wrgl/" in part:
                reps.append("WARNING: DATA RACE" + part)
    return reps


def race_signature(rep):
    fr = re.findall(r"^\s+(github\.com/wrgl/wrgl/[^\s(]+)\(", rep, re.M)
    return " <-> ".join(fr[:2]) if fr else rep[:120]


def race_replay(pid, cstrs, bdir, name, timeout=1200, halt=False):
    """Run the cases under the race-instrumented harness -> (rc, reports)."""
    cin = os.path.join(bdir, name + "_in.txt")
    cout = os.path.join(bdir, name + "_out.txt")
    prefix = os.path.join(bdir, name + "_log")
    for p in glob.glob(prefix + ".*"):
        os.remove(p)
    with open(cin, "w") as f:
        for c in cstrs:
            f.write("C " + c + "\n")
    env = harness_env(pid, GORACE="log_path=%s halt_on_error=%d exitcode=66 history_size=2" % (prefix, 1 if halt else 0))
    rc, out, _ = sh([RACE_BIN, "replay", pid, cin, cout], env=env, timeout=timeout)
    return rc, race_reports(prefix)


def race_stage(pid, bdir, cases, tier, cfg, ob, violations, notes, info):
    """Replay (a share of) the generated cases with a -race build of the harness.  Supporting
    search, not proof: the race-freedom theorems are about the model; this stage looks for a
    concrete execution of the real code in which the Go race detector observes a data race."""
    okb, outb = build_race_harness()
    ob("go build -race harness against /repo working tree", "build", okb, outb)
    if not okb:
        return
    every = cfg["race"].get(tier, 1)
    sel = [c["C"] for i, c in enumerate(cases) if c["I"] is not None and len(c["C"]) < 200000 and i % every == 0]
    t1 = time.time()
    rc, reps = race_replay(pid, sel, bdir, "race", timeout=cfg["race"].get("timeout", 1800))
    info["race_detector_cases"] = len(sel)
    info["race_detector_reports"] = len(reps)
    sigs = sorted(set(race_signature(r) for r in reps))
    ob("race detector: %d cases replayed under -race in %.0fs, %d report(s) in repository code" % (
        len(sel), time.time() - t1, len(reps)), "race-detector", not reps, "\n".join(sigs) + "\n" + (reps[0] if reps else ""))
    if not reps:
        return
    # localise: replay the cases one by one (in parallel), first one that races is the witness
    from concurrent.futures import ThreadPoolExecutor
    def one(ic):
        i, c = ic
        d = os.path.join(bdir, "race1_%d" % i)
        os.makedirs(d, exist_ok=True)
        try:
            _, r = race_replay(pid, [c], d, "r", timeout=300, halt=True)
        finally:
            pass
        return (i, c, r)
    witness = None
    order = sorted(enumerate(sel), key=lambda ic: len(ic[1]))
    with ThreadPoolExecutor(max_workers=12) as ex:
        for i, c, r in ex.map(one, order[:400]):
            if r and witness is None:
                witness = (c, r[0])
    for d in glob.glob(os.path.join(bdir, "race1_*")):
        shutil.rmtree(d, ignore_errors=True)
    if witness is not None:
        path = write_replay(pid, "data-race", dict(
            case=witness[0], race=True, cls="data-race", message=race_signature(witness[1]), report=witness[1][:6000],
            n_reports=len(reps), signatures=sigs[:10],
            how="./check %s --replay <this file>  (replays the case under a -race build, up to 20 times)" % pid))
    else:
        path = write_replay(pid, "data-race", dict(
            batch=sel, race=True, cls="data-race", message=sigs[0], report=reps[0][:6000], n_reports=len(reps),
            signatures=sigs[:10],
            how="./check %s --replay <this file>  (replays the batch under a -race build)" % pid))
    violations.append((path, ""))

def write_replay(pid, kind, payload):
    os.makedirs(os.path.join(VERIF, "replay"), exist_ok=True)
    body = json.dumps(dict(property=pid, kind=kind, **payload), indent=1, sort_keys=True)
    h = hashlib.sha256(body.encode()).hexdigest()[:12]
    path = os.path.join(VERIF, "replay", "%s-%s.json" % (pid, h))
    with open(path, "w") as f:
        f.write(body + "\n")
    return path


def judge(cases, known):
    """Classify cases -> (known_hits {cls: case}, spec_fail [cases], mismatch [cases], crashed [cases])."""
    known_hits, spec_fail, mismatch, crashed = {}, [], [], []
    for c in cases:
        if c["I"] is None or c["ok"] is None:
            crashed.append(c)
            continue
        if not c["ok"]:
            if c["cls"] in known:
                known_hits.setdefault(c["cls"], c)
            else:
                spec_fail.append(c)
        if c.get("M") is not None and c["M"] != c["I"]:
            if c["cls"] in known and not c["ok"]:
                continue
            mismatch.append(c)
        elif c.get("M") is None and "M" in c:
            mismatch.append(c)
    return known_hits, spec_fail, mismatch, crashed


def smallest(cs):
    return min(cs, key=lambda c: len(c["C"]))


# --------------------------------------------------------------------------
# generic shrinking of a failing case (delta debugging over the exchange tree)
# --------------------------------------------------------------------------

def tparse(s):
    pos = 0

    def item():
        nonlocal pos
        while pos < len(s) and s[pos] == " ":
            pos += 1
        if s[pos] == "(":
            pos += 1
            kids = []
            while True:
                while s[pos] == " ":
                    pos += 1
                if s[pos] == ")":
                    pos += 1
                    return kids
                kids.append(item())
        st = pos
        while pos < len(s) and s[pos] not in " ()":
            pos += 1
        return s[st:pos]
    return item()


def tprint(t):
    if isinstance(t, str):
        return t
    return "(" + " ".join(tprint(k) for k in t) + ")"


def shrink_candidates(t):
    """All trees obtained by deleting one child of one list node (depth-first)."""
    res = []

    def rec(node, path):
        if isinstance(node, str):
            return
        if len(node) >= 1:
            for i in range(len(node)):
                res.append(path + [i])
        for i, k in enumerate(node):
            rec(k, path + [i])
    rec(t, [])
    return res


def delete_at(t, path):
    if len(path) == 1:
        return t[:path[0]] + t[path[0] + 1:]
    return t[:path[0]] + [delete_at(t[path[0]], path[1:])] + t[path[0] + 1:]


def shrink(pid, bdir, case, still_fails, budget_s=40):
    """Greedy one-child deletion under a hard wall-clock deadline;
    still_fails(list of C strings, timeout_s) -> list of bool."""
    deadline = time.time() + budget_s
    cur = tparse(case["C"])
    improved = True
    while improved and time.time() < deadline:
        improved = False
        paths = shrink_candidates(cur)
        cands = [delete_at(cur, p) for p in paths]
        cands.sort(key=lambda c: len(tprint(c)))   # biggest deletions first
        cands = cands[:512]
        for start in range(0, len(cands), 32):
            remaining = deadline - time.time()
            if remaining <= 1:
                break
            batch = cands[start:start + 32]
            verdicts = still_fails([tprint(c) for c in batch], max(5, min(30, int(remaining))))
            for c, v in zip(batch, verdicts):
                if v:
                    cur = c
                    improved = True
                    break
            if improved:
                break
    return tprint(cur)


# --------------------------------------------------------------------------
# main
# --------------------------------------------------------------------------

def main(argv):
    try:
        return main_run(argv)
    finally:
        if argv and argv[0] in PROPS:
            clean_scratch(argv[0])


def main_run(argv):
    ap = argparse.ArgumentParser()
    ap.add_argument("pid")
    ap.add_argument("--tier", default=os.environ.get("VERIF_TIER", "quick"))
    ap.add_argument("--replay")
    ap.add_argument("--no-shrink", action="store_true")
    a = ap.parse_args(argv)
    pid, tier = a.pid, a.tier
    if pid not in PROPS:
        log("unknown property " + pid)
        return 2
    seed = int(os.environ.get("VERIF_SEED", "1") or "1")
    cfg = PROPS[pid]
    t0 = time.time()
    bdir = os.path.join(BUILD, pid)
    os.makedirs(bdir, exist_ok=True)
    known = load_known().get(pid, {})
    obligations = []   # (name, kind, ok, detail)
    violations = []    # (replay path, suffix)
    notes = []

    def ob(name, kind, ok, detail=""):
        obligations.append(dict(name=name, kind=kind, ok=bool(ok), detail=detail[-1500:] if detail else ""))
        log("  [%s] %s: %s" % ("ok" if ok else "FAILED", kind, name))

    log("== %s tier=%s seed=%d" % (pid, tier, seed))
    # 1. translate
    ok, msg = translate()
    if not ok:
        log(msg)
    ob("translate /repo -> gen/Extracted.v", "translator", ok, msg)

    # 2. prove
    targets = cfg["coq"] + cfg.get("tie", [])
    model_targets = cfg.get("model_vo", [])
    okc, out, dt = coq_make(targets + model_targets)
    log("  coq make: %s in %.1fs" % ("ok" if okc else "FAILED", dt))
    if not okc:
        log(out[-3000:])
    for tg in targets:
        built = okc
        if not okc:
            with Lock("coq"):
                rcq, _, _ = sh(["make", "-q", tg], cwd=COQ, timeout=300)
            built = rcq == 0 and os.path.exists(os.path.join(COQ, tg))
        kind = "tie-obligation" if "/Tie_" in tg else "coq-file"
        ob(tg, kind, built, "" if built else out)

    # 3. audit
    bad = audit_sources()
    ob("no Admitted/Axiom/Parameter/unset checks in coq/", "audit", not bad, "\n".join(bad))
    assumptions = {}
    if os.path.exists(os.path.join(COQ, "props", pid + ".vo")):
        assumptions = print_assumptions(pid, bdir)
        for n, txt in assumptions.items():
            okA, axs = assumptions_ok(txt)
            ob("theorem %s (Print Assumptions: %s)" % (n, "closed" if okA and not axs else ",".join(axs)),
               "theorem", okA, txt)
    else:
        for n in theorem_names(pid):
            ob("theorem %s" % n, "theorem", False, "props/%s.vo did not build" % pid)

    # 3b. thorough tier: independent re-check of the compiled closure with coqchk
    if tier == "thorough" and os.path.exists(os.path.join(COQ, "props", pid + ".vo")):
        qf = []
        for d in ("lib", "model", "proofs", "props", "gen"):
            qf += ["-Q", d, "W." + d]
        with Lock("coq"):
            rcc, outc, dtc = sh(["coqchk", "-silent", "-o"] + qf + ["W.props." + pid], cwd=COQ, timeout=3600)
        m = re.search(r"\* Axioms:(.*?)\n\s*\n\* Constants", outc, re.S)
        axs = m.group(1).strip() if m else "?"
        okk = rcc == 0 and (axs == "<none>" or all(a.strip().split(" ")[0] in AXIOM_WHITELIST for a in axs.split("\n") if a.strip()))
        ob("coqchk -o W.props.%s (axioms: %s) in %.0fs" % (pid, axs.replace("\n", "; ")[:200], dtc), "coqchk", okk, outc)
        assumptions["coqchk"] = outc[-1500:]

    # 4. build harness + driver
    okh, outh = build_harness()
    ob("go build -tags verif harness against /repo working tree", "build", okh, outh)
    okd, outd = build_driver(pid, bdir)
    ob("extraction + OCaml driver", "build", okd, outd)
    if not okh:
        log(outh[-3000:])
    if not okd:
        log(outd[-3000:])

    cases, info = [], {}
    corr_ok = True
    if a.replay:
        return do_replay(pid, bdir, a.replay, known)

    if okh and okd:
        # 5. corpus + generation, implementation run
        casefile = os.path.join(bdir, "cases.txt")
        if os.path.exists(casefile):
            os.remove(casefile)
        corpus = sorted(glob.glob(os.path.join(VERIF, "corpus", pid, "*.case")))
        ccases = []
        if corpus:
            cin = os.path.join(bdir, "corpus_in.txt")
            with open(cin, "w") as f:
                for p in corpus:
                    for line in open(p):
                        if line.startswith("C "):
                            f.write(line if line.endswith("\n") else line + "\n")
            rc, outc, _ = harness_replay(pid, cin, os.path.join(bdir, "corpus_out.txt"))
            ccases, _ = parse_cases(os.path.join(bdir, "corpus_out.txt"))
            for c in ccases:
                c["tag"] = "corpus"
        gtimeout = cfg.get("gen_timeout", {"quick": 900, "thorough": 7200})[tier]
        rc, outg, dtg = harness_gen(pid, seed, tier, casefile, gtimeout)
        cases, info = parse_cases(casefile)
        cases = ccases + cases
        log("  harness: %d cases in %.1fs (rc=%d)" % (len(cases), dtg, rc))
        if rc != 0:
            log(outg[-2000:])
            notes.append("harness exited with rc=%d: %s" % (rc, outg[-800:]))
        # 6. model run + compare
        okm, errm = run_model(bdir, [c for c in cases if c["I"] is not None])
        if not okm:
            notes.append("model driver failed: " + errm[-500:])
        known_hits, spec_fail, mismatch, crashed = judge(cases, known)
        if rc != 0 and not crashed:
            crashed = [dict(C="()", I=None, tag="harness", msg=outg[-800:], cls="harness-crash", ok=None)]
        for cls, c in sorted(known_hits.items()):
            log("KNOWN-FINDING: property=%s %s [class=%s] e.g. %s" % (pid, known[cls], cls, c["msg"][:200]))
        batches = {}
        for c in cases:
            b = batches.setdefault(c["tag"], [0, 0])
            b[0] += 1
            if c in mismatch or c in spec_fail or c in crashed:
                b[1] += 1
        for tag, (n, nb) in sorted(batches.items()):
            ob("correspondence+oracle batch '%s' (%d cases)" % (tag, n), "correspondence", nb == 0,
               "%d failing" % nb)
        corr_ok = not (spec_fail or mismatch or crashed)
        if cfg.get("race"):
            race_stage(pid, bdir, cases, tier, cfg, ob, violations, notes, info)

        def still_fails_factory(cls, want_mismatch):
            def f(cstrs, timeout_s=30):
                cin = os.path.join(bdir, "shrink_in.txt")
                cout = os.path.join(bdir, "shrink_out.txt")
                with open(cin, "w") as fh:
                    for s in cstrs:
                        fh.write("C " + s + "\n")
                if os.path.exists(cout):
                    os.remove(cout)
                harness_replay(pid, cin, cout, timeout=timeout_s)
                cs, _ = parse_cases(cout)
                if len(cs) != len(cstrs):
                    return [False] * len(cstrs)
                good = [c for c in cs if c["I"] is not None]
                if want_mismatch:
                    run_model(bdir, good, timeout=timeout_s)
                res = []
                for c in cs:
                    if c["I"] is None or c["ok"] is None:
                        res.append(False)
                    elif want_mismatch:
                        res.append(c["ok"] and c.get("M") is not None and c["M"] != c["I"])
                    else:
                        res.append((not c["ok"]) and c["cls"] == cls)
                return res
            return f

        if crashed:
            c = crashed[0]
            path = write_replay(pid, "implementation-crash", dict(
                case=c["C"], message="harness/implementation crashed (process death) while running this case: " + c.get("msg", ""),
                how="./check %s --replay <this file>" % pid))
            violations.append((path, ""))
        if spec_fail:
            by_cls = {}
            for c in spec_fail:
                by_cls.setdefault(c["cls"], []).append(c)
            for k_cls, (cls, cs) in enumerate(sorted(by_cls.items())):
                if k_cls >= 4:
                    notes.append("further failing oracle classes not reported separately: %s" % ", ".join(sorted(by_cls)[4:]))
                    break
                c = smallest(cs)
                cstr = c["C"]
                if not a.no_shrink and len(cstr) < 200000 and k_cls < 2:
                    try:
                        cstr = shrink(pid, bdir, c, still_fails_factory(cls, False))
                    except Exception as e:  # shrinking is best-effort
                        notes.append("shrink failed: %r" % e)
                path = write_replay(pid, "spec-violation", dict(
                    case=cstr, original_case=c["C"] if cstr != c["C"] else None, cls=cls, message=c["msg"],
                    impl=c["I"][:2000] if c["I"] else None, n_failing=len(cs),
                    how="./check %s --replay <this file>" % pid))
                violations.append((path, ""))
        elif mismatch:
            # correspondence broken but the oracle accepts every observed output:
            # search harder for a failing input before reporting.
            found = search_failing(pid, bdir, seed, known, notes)
            c = smallest(mismatch)
            cstr = c["C"]
            if not a.no_shrink and len(cstr) < 200000:
                try:
                    cstr = shrink(pid, bdir, c, still_fails_factory(None, True))
                except Exception as e:
                    notes.append("shrink failed: %r" % e)
            if found is not None:
                path = write_replay(pid, "spec-violation", dict(
                    case=found["C"], cls=found["cls"], message=found["msg"], impl=found["I"][:2000],
                    how="./check %s --replay <this file>" % pid, found_by="enlarged search after correspondence failure"))
                violations.append((path, ""))
            else:
                path = write_replay(pid, "correspondence-failure", dict(
                    no_longer_checks="correspondence batch '%s' of %s (model %s vs implementation)" % (
                        c["tag"], pid, PROPS[pid]["extract"]),
                    case=cstr, impl=(c["I"] or "")[:4000], model=(c.get("M") or "")[:4000],
                    n_disagreeing=len(mismatch), how="./check %s --replay <this file>" % pid))
                violations.append((path, " no-failing-input-found"))
    # proof-side failures
    proof_bad = [o for o in obligations if not o["ok"] and o["kind"] in
                 ("coq-file", "tie-obligation", "theorem", "audit", "translator", "build", "coqchk")]
    if proof_bad and not violations:
        found = None
        if okh and okd:
            found = search_failing(pid, bdir, seed, known, notes)
        if found is not None:
            path = write_replay(pid, "spec-violation", dict(
                case=found["C"], cls=found["cls"], message=found["msg"], impl=found["I"][:2000],
                broken_obligations=[o["name"] for o in proof_bad],
                how="./check %s --replay <this file>" % pid))
            violations.append((path, ""))
        else:
            path = write_replay(pid, "proof-obligation-failure", dict(
                no_longer_checks=[o["name"] for o in proof_bad],
                detail=[o["detail"][-1200:] for o in proof_bad][:4]))
            violations.append((path, " no-failing-input-found"))

    wall = time.time() - t0
    write_evidence(pid, tier, seed, cfg, obligations, cases, info, assumptions, violations, notes, wall, known)
    for path, suffix in violations:
        log("VIOLATION property=%s replay=%s%s" % (pid, path, suffix))
    log("== %s: %s in %.1fs (%d obligations, %d discharged, %d cases)" % (
        pid, "FAIL" if violations else "PASS", wall, len(obligations),
        sum(1 for o in obligations if o["ok"]), len(cases)))
    return 1 if violations else 0


def search_failing(pid, bdir, seed, known, notes):
    """Enlarged search for a concrete input on which the implementation violates the
    specification oracle (used only after a proof obligation or the correspondence broke)."""
    budget = int(os.environ.get("VERIF_SEARCH_S", "240"))
    t0 = time.time()
    k = 0
    while time.time() - t0 < budget and k < 4:
        k += 1
        out = os.path.join(bdir, "search_%d.txt" % k)
        harness_gen(pid, seed + 7919 * k, "thorough" if k > 1 else "quick", out, max(30, budget - int(time.time() - t0)))
        cs, _ = parse_cases(out)
        bad = [c for c in cs if c["ok"] is False and c["cls"] not in known]
        os.remove(out) if os.path.exists(out) else None
        if bad:
            return smallest(bad)
    notes.append("enlarged search (%d rounds, %.0fs) found no input violating the specification oracle" % (k, time.time() - t0))
    return None


def do_replay(pid, bdir, path, known):
    r = json.load(open(path))
    if "case" not in r or not r["case"]:
        log("replay file names a proof obligation / correspondence that no longer checks: %s" % r.get("no_longer_checks"))
        log("re-run ./check %s to re-check it" % pid)
        return 1
    if r.get("race"):
        okb, outb = build_race_harness()
        if not okb:
            log("race harness does not build:\n" + outb[-2000:])
            log("VIOLATION property=%s replay=%s" % (pid, path))
            return 1
        batch = [r["case"]] if r.get("case") else r.get("batch", [])
        for k in range(1 if not r.get("case") else 20):
            _, reps = race_replay(pid, batch, bdir, "race_replay", timeout=1800)
            if reps:
                log(reps[0][:3000])
                log("data race observed (run %d): %s" % (k + 1, race_signature(reps[0])))
                log("VIOLATION property=%s replay=%s" % (pid, path))
                return 1
        log("no data race observed in the replayed case(s)")
        return 0
    cin = os.path.join(bdir, "replay_in.txt")
    cout = os.path.join(bdir, "replay_out.txt")
    with open(cin, "w") as f:
        f.write("C " + r["case"] + "\n")
    if os.path.exists(cout):
        os.remove(cout)
    rc, out, _ = harness_replay(pid, cin, cout)
    cs, _ = parse_cases(cout)
    if not cs or cs[0]["I"] is None:
        log("implementation crashed on the replayed case:\n" + out[-2000:])
        log("VIOLATION property=%s replay=%s" % (pid, path))
        return 1
    run_model(bdir, cs)
    c = cs[0]
    log("case:  " + c["C"][:1000])
    log("impl:  " + (c["I"] or "")[:1000])
    log("model: " + (c.get("M") or "")[:1000])
    log("oracle: %s %s %s" % ("ok" if c["ok"] else "FAIL", c["cls"], c["msg"]))
    if not c["ok"] or c.get("M") != c["I"]:
        log("VIOLATION property=%s replay=%s" % (pid, path))
        return 1
    log("replayed case passes")
    return 0


def write_evidence(pid, tier, seed, cfg, obligations, cases, info, assumptions, violations, notes, wall, known):
    distinct = set()
    for c in cases:
        if c["nontrivial"]:
            distinct.add(hashlib.sha256(c["C"].encode()).hexdigest())
    samples = []
    seen_tags = set()
    for c in cases:
        if c["tag"] not in seen_tags or len(samples) < 3:
            seen_tags.add(c["tag"])
            samples.append(dict(tag=c["tag"], case=c["C"][:600], impl=(c["I"] or "")[:300], oracle="ok" if c["ok"] else "FAIL " + c["cls"]))
        if len(samples) >= 8:
            break
    if not samples:
        samples = [dict(obligation=o["name"]) for o in obligations[:5]]
    tb = [
        "Coq 8.16.1 kernel incl. vm_compute (no native_compute)",
        "axioms declared by this development: none; Print Assumptions per theorem recorded under coverage.assumptions_per_theorem",
        "translator /verif/translator (syntactic Go -> Coq constants/skeletons)",
        "extraction: ExtrOcamlBasic only (bool, option, unit, list, prod, sumbool); N/Z/positive/nat stay Coq inductives; no Extract Constant",
        "OCaml 4.13.1 + /verif/driver/driver.ml (tree parser/printer)",
        "Go correspondence harness /verif/harness (generators, oracle, tree coders)",
    ] + cfg.get("trusted", [])
    ev = dict(
        property_id=pid, tier=tier, seed=seed, level="proof",
        coverage=dict(
            obligations=len(obligations),
            discharged=sum(1 for o in obligations if o["ok"]),
            obligation_list=[dict(name=o["name"], kind=o["kind"], ok=o["ok"]) for o in obligations],
            checker_cmd="cd /verif && ./check %s --tier %s  (coq_makefile + make -j16 %s; coqc Print Assumptions; go build -tags verif; extracted OCaml driver)" % (
                pid, tier, " ".join(cfg["coq"] + cfg.get("tie", []))),
            trusted_base=tb,
            assumptions_per_theorem=assumptions,
            evaluations=len(cases),
            distinct_nontrivial=len(distinct),
            rule=cfg.get("rule", ""),
            samples=samples,
            input_distribution=info,
            tags={t: sum(1 for c in cases if c["tag"] == t) for t in sorted(set(c["tag"] for c in cases))},
            known_findings_hit=sorted(set(c["cls"] for c in cases if c["ok"] is False and c["cls"] in known)),
            notes=notes,
            violation_replays=[p for p, _ in violations],
        ),
        assumptions=cfg.get("assumptions", []),
        wall_s=round(wall, 2),
        violations=len(violations),
    )
    os.makedirs(os.path.join(VERIF, "evidence"), exist_ok=True)
    with open(os.path.join(VERIF, "evidence", pid + ".json"), "w") as f:
        json.dump(ev, f, indent=1, sort_keys=True)
        f.write("\n")
