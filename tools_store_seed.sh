#!/bin/bash
# usage: tools_store_seed.sh <Cxx> <mN> "<needs>" "<caught|missed: detail>"
pid=$1; m=$2; needs=$3; result=$4
d=/verif/seeded/$pid-${SEEDTAG:-}$m; mkdir -p $d
cp ${MUTBASE:-/tmp/mut}/out/$pid/$m.diff $d/patch.diff
rm -rf $d/demo; cp -r ${MUTBASE:-/tmp/mut}/out/$pid/${m}_demo $d/demo; rm -f $d/demo/go.sum
cp ${MUTBASE:-/tmp/mut}/out/$pid/$m.md $d/notes.md
python3 - "$pid" "$m" "$needs" "$result" <<'PY'
import json,sys
pid,m,needs,result=sys.argv[1:5]
json.dump(dict(property=pid, patch="patch.diff", demo="demo/ (scratch module; replace github.com/wrgl/wrgl => a worktree with/without the patch)",
  needs_to_manifest=needs, origin="independent sub-agent given only the property text and a scratch worktree of /repo",
  confirmed=["go test ./... (248-test suite) passes with the change", "demo fails with the change", "demo passes without it"],
  check_result=result, how_run="git -C /repo apply seeded/%s-%s/patch.diff; ./check %s; git -C /repo checkout -- ." % (pid,m,pid)),
  open("/verif/seeded/%s-%s%s/meta.json"%(pid,__import__('os').environ.get('SEEDTAG',''),m),"w"), indent=1)
PY
echo stored $d
