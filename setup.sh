#!/bin/bash
# Offline setup after a fresh restore: translate, full Coq build from clean, harness and drivers.
set -u
cd "$(dirname "$0")"
export GOFLAGS=-mod=mod GOPROXY=off GOSUMDB=off GOTOOLCHAIN=local
mkdir -p build evidence replay
python3 - <<'PY'
import sys, os
sys.path.insert(0, "pylib")
import checklib as c
from props import PROPS
ok, msg = c.translate()
print("translate:", ok, msg[:500])
targets = []
for p in PROPS.values():
    for t in p["coq"] + p.get("tie", []) + p.get("model_vo", []):
        if t not in targets:
            targets.append(t)
ok, out, dt = c.coq_make(targets, timeout=7200)
print("coq build:", ok, "%.0fs" % dt)
if not ok:
    print(out[-4000:])
ok, out = c.build_harness()
print("harness build:", ok, out[-2000:] if not ok else "")
for pid in PROPS:
    bdir = os.path.join(c.BUILD, pid)
    os.makedirs(bdir, exist_ok=True)
    ok, out = c.build_driver(pid, bdir)
    print("driver", pid, ok, out[-1000:] if not ok else "")
PY
exit 0
