#!/bin/bash
# usage: tools_seed.sh <Cxx> <patch.diff> [tier]  -- apply a seeded change to /repo, run the check, undo it.
# The evidence file is saved and restored: committed evidence must come from clean-tree runs only.
pid=$1; patch=$2; tier=${3:-quick}
cd /repo && git apply --check "$patch" || { echo "PATCH DOES NOT APPLY"; exit 3; }
cp /verif/evidence/$pid.json /tmp/evidence_$pid.json.bak 2>/dev/null
git apply "$patch"
cd /verif && VERIF_SEARCH_S=${VERIF_SEARCH_S:-60} ./check $pid --tier $tier > /tmp/seed_$pid.log 2>&1; rc=$?
git -C /repo apply -R "$patch" 2>/dev/null; git -C /repo checkout -- .   # -R also removes files the patch added
cp /tmp/evidence_$pid.json.bak /verif/evidence/$pid.json 2>/dev/null
grep -E "VIOLATION|KNOWN-FINDING|== C|FAILED" /tmp/seed_$pid.log | head -12
echo "exit=$rc"
