#!/bin/bash
# Thorough tier of every check on the unchanged tree (background soak). One line per property.
cd "$(dirname "$0")"
./setup.sh > thorough_setup.log 2>&1
for pid in $(python3 -c "import sys; sys.path.insert(0,'pylib'); from props import PROPS; print(' '.join(sorted(PROPS)))"); do
  out=$(VERIF_SEARCH_S=30 ./check $pid --tier thorough --no-shrink 2>&1)
  echo "$(echo "$out" | grep -E "^== $pid:" | tail -1) violations=$(echo "$out" | grep -c '^VIOLATION')"
  echo "$out" | grep -E "VIOLATION|FAILED" | head -5
done
