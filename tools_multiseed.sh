#!/bin/bash
# Flakiness / false-alarm soak on the unchanged tree: every check, several seeds. Prints one line per run.
cd "$(dirname "$0")"
./setup.sh > multiseed_setup.log 2>&1
for seed in ${SEEDS:-2 3 4}; do
  for pid in $(python3 -c "import sys; sys.path.insert(0,'pylib'); from props import PROPS; print(' '.join(sorted(PROPS)))"); do
    out=$(VERIF_SEED=$seed VERIF_SEARCH_S=30 ./check $pid --no-shrink 2>&1)
    line=$(echo "$out" | grep -E "^== $pid:" | tail -1)
    viol=$(echo "$out" | grep -c "^VIOLATION")
    echo "seed=$seed $line violations=$viol"
    if [ "$viol" != "0" ]; then echo "$out" | grep -E "VIOLATION|FAILED" | head -5; fi
  done
done
